package main

import (
	"encoding/json"
	"fmt"
	"os"
	"sort"
	"strings"

	"verifsim/sched"
)

// A Scenario is the replay artefact: a self-contained JSON value from which
// an execution is a pure function. Generators are merely a convenient source
// of scenarios; minimisation edits scenarios directly.
type Scenario struct {
	Prop    string           `json:"prop"`
	Family  string           `json:"family"` // sub-family of the property's checks
	Seed    uint64           `json:"seed"`   // generator seed it came from (informational)
	Index   int              `json:"index"`  // index in the batch (informational)
	D       Dialect          `json:"dialect"`
	Prog    []string         `json:"prog,omitempty"` // main program, as top-level units
	Mods    []Module         `json:"mods,omitempty"` // loadable modules
	Readers [][]string       `json:"readers,omitempty"`
	Sched   sched.Config     `json:"sched"`
	Faults  []Fault          `json:"faults,omitempty"`
	Cancels []CancelSpec     `json:"cancels,omitempty"`
	Ops     []Op             `json:"ops,omitempty"`    // operation history (C07 histories, C12, C20)
	Limits  []uint64         `json:"limits,omitempty"` // explicit cut points (C06/C07); empty = every
	HashFn  int              `json:"hashfn,omitempty"`
	N       map[string]int64 `json:"n,omitempty"` // numeric knobs
	Keys    []KeySpec        `json:"keys,omitempty"`
	Note    string           `json:"note,omitempty"`
	// Prelude: scenarios executed first, in the same process, results ignored.
	// A violation that depends on state an EARLIER execution left behind in the
	// process (a pool, a cache) replays only together with that execution.
	Prelude []*Scenario `json:"prelude,omitempty"`
	// Expect is filled in when a scenario is written as a replay file.
	Expect *Expect `json:"expect,omitempty"`
}

type Module struct {
	Name  string   `json:"name"`
	Units []string `json:"units"`
}

// CancelSpec: a canceller task that calls Cancel(reason) after having been
// scheduled After times (each time it yields once).
type CancelSpec struct {
	Target   int    `json:"target"`
	After    int    `json:"after"`
	Reason   string `json:"reason"`
	Uncancel bool   `json:"uncancel,omitempty"`
}

// Op is one operation of a history.
type Op struct {
	Op   string  `json:"op"`
	A    int64   `json:"a,omitempty"`
	B    int64   `json:"b,omitempty"`
	S    string  `json:"s,omitempty"`
	Via  string  `json:"via,omitempty"` // "go" or "star"
	Obj  int     `json:"obj,omitempty"`
	Args []int64 `json:"args,omitempty"`
}

type KeySpec struct {
	Kind         string  `json:"kind"` // "sim", "int", "str", "float", "tuple"
	ID           int64   `json:"id"`
	Hash         uint32  `json:"hash,omitempty"`
	Unhashable   bool    `json:"unhashable,omitempty"`
	Incomparable []int64 `json:"incomparable,omitempty"` // ids of sim keys it cannot be compared with
	S            string  `json:"s,omitempty"`
}

type Expect struct {
	Class  string `json:"class"`
	Shape  string `json:"shape"`
	Detail string `json:"detail"`
}

func (sc *Scenario) Knob(name string, def int64) int64 {
	if v, ok := sc.N[name]; ok {
		return v
	}
	return def
}

func (sc *Scenario) Source() string { return strings.Join(sc.Prog, "") }

func (sc *Scenario) Clone() *Scenario {
	b, _ := json.Marshal(sc)
	var c Scenario
	json.Unmarshal(b, &c)
	if c.N == nil {
		c.N = map[string]int64{}
	}
	return &c
}

func (sc *Scenario) JSON() []byte {
	b, _ := json.MarshalIndent(sc, "", " ")
	return b
}

func LoadScenario(path string) (*Scenario, error) {
	b, err := os.ReadFile(path)
	if err != nil {
		return nil, err
	}
	var sc Scenario
	if err := json.Unmarshal(b, &sc); err != nil {
		return nil, fmt.Errorf("%s: %v", path, err)
	}
	if sc.N == nil {
		sc.N = map[string]int64{}
	}
	return &sc, nil
}

// A Violation is one failed oracle clause.
type Violation struct {
	Class  string `json:"class"`  // stable identifier of the clause
	Detail string `json:"detail"` // human-readable specifics
}

// Result of executing one scenario.
type Result struct {
	Violations  []Violation
	Counters    map[string]int64 // faults fired, probes hit, sizes
	Fingerprint uint64           // hash of the event log
	Sig         uint64           // distinctness signature of the case
	Nontrivial  bool
	Ticks       int64
	Points      uint64
	Switches    uint64
	SwitchSig   uint64
	Evals       int64 // executions performed for this scenario
	Pairs       []uint16
	Invalid     bool        // draft was statically invalid: discarded, not counted
	Recorded    []sched.Run // decisions actually taken by the (last) scheduled run
}

func NewResult() *Result { return &Result{Counters: map[string]int64{}} }

func (r *Result) Violate(class, format string, args ...any) {
	d := fmt.Sprintf(format, args...)
	if len(d) > 1500 {
		d = d[:1500] + "…"
	}
	r.Violations = append(r.Violations, Violation{class, d})
}

func (r *Result) Count(name string, n int64) { r.Counters[name] += n }

// Mix folds an observation into the run's fingerprint (determinism self-test).
func (r *Result) Mix(parts ...string) {
	for _, p := range parts {
		r.Fingerprint = mix64(r.Fingerprint, hashStr(p))
	}
}

func (r *Result) addSched(s *sched.Sched) {
	r.Ticks += s.Now()
	r.Points += s.Points()
	r.Switches += s.Switches()
	r.SwitchSig = mix64(r.SwitchSig, s.SwitchSig())
	r.Fingerprint = mix64(r.Fingerprint, s.Fingerprint())
	r.Recorded = s.Recorded()
	for w, bits := range s.Pairs {
		for b := 0; bits != 0; b++ {
			if bits&1 != 0 {
				r.Pairs = append(r.Pairs, uint16(w*64+b))
			}
			bits >>= 1
		}
	}
}

func (r *Result) Classes() []string {
	m := map[string]bool{}
	for _, v := range r.Violations {
		m[v.Class] = true
	}
	var out []string
	for k := range m {
		out = append(out, k)
	}
	sort.Strings(out)
	return out
}

func (r *Result) Has(class string) bool {
	for _, v := range r.Violations {
		if v.Class == class {
			return true
		}
	}
	return false
}

// A Prop is one property's check.
type Prop interface {
	ID() string
	Level() string
	// Generate returns the i-th scenario of a batch.
	Generate(seed uint64, i int, tier string) *Scenario
	// Run executes a scenario. It must be a pure function of the scenario.
	Run(sc *Scenario) *Result
	// Shrink proposes smaller variants (the generic line/unit/schedule
	// shrinkers are applied in addition).
	Shrink(sc *Scenario) []*Scenario
	// Shape is the signature of a (minimised) failing scenario, used to match
	// known findings.
	Shape(sc *Scenario, class string) string
	// Budget returns the number of scenarios for a tier.
	Budget(tier string) int
	Rule() string
	Components() map[string]string
}

var props = map[string]Prop{}

func register(p Prop) { props[p.ID()] = p }
