//go:build race

package main

import "runtime"

const raceEnabled = true

func raceErrors() int { return runtime.RaceErrors() }
