package main

import (
	"fmt"
	"math"
	"strings"

	"go.starlark.net/starlark"

	"verifsim/sched"
)

// C07 — step limits and cancellation always stop execution.
//
// Families:
//   cut     every step limit N from 1 to S+2 (default OnMaxSteps)
//   onmax   OnMaxSteps handler variants (own reason; raise the limit)
//   bcancel Cancel injected at every host built-in call
//   async   1-3 canceller/uncanceller tasks under the seeded scheduler
//   hist    Cancel/Uncancel/SetMax/Exec histories on one thread vs a model

type c07 struct{}

func init() { register(c07{}) }

func (c07) ID() string    { return "C07" }
func (c07) Level() string { return "fault_enumeration" }
func (c07) Rule() string {
	return "generated programs (terminating and not) x {every step limit N<=S+2; OnMaxSteps variants; Cancel at every host built-in call; async cancellers under a seeded schedule; Cancel/Uncancel/SetMax/Exec histories}. A case is one (program, fault point) execution; distinct = distinct (program hash, family, fault point); non-trivial = the fault actually cut the execution short or the history contained a cancelled execution"
}
func (c07) Components() map[string]string {
	return map[string]string{
		"syntax/resolve/compile/VM/library":                      "real",
		"Thread.Cancel/Uncancel/SetMaxExecutionSteps/OnMaxSteps": "real",
		"instruction counter":                                    "hook 2 (independent of Thread.Steps)",
		"scheduler":                                              "starsim seeded scheduler (real goroutines, one runs at a time)",
		"host built-ins probe/attempt/apply/fault/each":          "stub (simulator)",
	}
}

func (c07) Budget(tier string) int {
	if tier == "thorough" {
		return 60000
	}
	return 2400
}

const c07Cap = 6000 // reference executions are cut here (non-terminating programs)

var c07Nonterm = []string{
	"def spin%d():\n    n = 0\n    for i in range(1000000000):\n        n += i\n        if n %% 7 == 0:\n            probe(n)\n    return n\n",
	"def spin%d():\n    return [max([z, 1, 2], key=lambda q: apply(lambda: q)) for z in range(1000000000)]\n",
	"def spin%d():\n    acc = []\n    for i in range(1000000000):\n        acc.append(sorted([3, 1, 2], key=lambda q: -q)[0])\n        probe(len(acc))\n    return acc\n",
}

func (c07) Generate(seed uint64, i int, tier string) *Scenario {
	r := NewRng(mix64(seed, uint64(i)))
	sc := &Scenario{Prop: "C07", Seed: seed, Index: i, D: RandomDialect(r), N: map[string]int64{}}
	switch n := r.Intn(100); {
	case n < 35:
		sc.Family = "cut"
	case n < 45:
		sc.Family = "onmax"
	case n < 60:
		sc.Family = "bcancel"
	case n < 85:
		sc.Family = "async"
	default:
		sc.Family = "hist"
	}
	// 0-2 loadable modules; the host's Load runs them on the importing thread
	// (their steps count against its budget) or on a fresh thread
	var loads []LoadSpec
	if r.Chance(2, 5) {
		nm := r.Range(1, 2)
		for m := 0; m < nm; m++ {
			name := fmt.Sprintf("lib%d.star", m)
			n0, n1, n2 := fmt.Sprintf("lib%d_v0", m), fmt.Sprintf("lib%d_v1", m), fmt.Sprintf("lib%d_v2", m)
			units := []string{
				fmt.Sprintf("%s = {(\"lib-key-%%d-with-padding\" %% q): q for q in range(%d)}\n", n0, r.Range(2, 25)),
				fmt.Sprintf("def %s_mk(n):\n    acc = []\n    for i in range(n):\n        acc.append(i * %d)\n    probe(len(acc))\n    return acc\n%s = %s_mk(%d)\n", n1, r.Range(1, 5), n1, n1, r.Range(0, 30)),
				fmt.Sprintf("def %s():\n    return len(%q)\n", n2, n2),
			}
			sc.Mods = append(sc.Mods, Module{Name: name, Units: units})
			loads = append(loads, LoadSpec{Module: name, Names: []string{n0, n1, n2}, Kinds: []kind{kDictSI, kListI, kInt}, Fn: []bool{false, false, true}})
		}
		sc.N["loadsame"] = int64(r.Intn(2))
		if r.Chance(2, 3) {
			sc.N["loadsame"] = 1
		}
	}
	g := NewGen(r.Fork(), GenOpts{D: sc.D, Units: r.Range(6, 14), ErrPermille: r.Pick3(0, 10, 30), Probes: true, Host: true, JSON: true, MutGlobals: true, Loads: loads})
	sc.Prog = g.Program()
	nonterm := r.Chance(1, 4)
	if nonterm && sc.Family != "hist" {
		k := r.Intn(len(c07Nonterm))
		if sc.D.While && r.Chance(1, 3) {
			sc.Prog = append(sc.Prog, "def spinw():\n    n = 0\n    while True:\n        n += 1\n        if n % 11 == 0:\n            probe(n)\n", "spinw()\n")
		} else if sc.D.Recursion && r.Chance(1, 3) {
			sc.Prog = append(sc.Prog, "def rec(n):\n    probe(n) if n % 50 == 0 else None\n    return rec(n + 1) + 1\n", "rec(0)\n")
		} else {
			sc.Prog = append(sc.Prog, fmt.Sprintf(c07Nonterm[k], k), fmt.Sprintf("spin%d()\n", k))
		}
	}
	switch sc.Family {
	case "onmax":
		sc.N["delta"] = int64(r.Range(1, 40))
	case "async":
		nc := r.Range(1, 3)
		for j := 0; j < nc; j++ {
			cs := CancelSpec{Target: 0, After: r.Pick3(0, r.Range(1, 30), r.Range(30, 600)), Reason: fmt.Sprintf("reason-%d", j)}
			if j > 0 && r.Chance(1, 4) {
				cs.Uncancel = true
			}
			sc.Cancels = append(sc.Cancels, cs)
		}
		sc.Sched = randomSched(r, 1+nc)
		if r.Chance(1, 3) {
			// also a same-goroutine cancel from inside a host built-in
			sc.Faults = append(sc.Faults, Fault{Kind: "cancel", Task: 0, Trigger: "call", K: uint64(r.Range(1, 12)), Payload: "from-builtin"})
		}
		if r.Chance(1, 3) {
			sc.Faults = append(sc.Faults, Fault{Kind: "yield", Task: 0, Trigger: "call", K: uint64(r.Range(1, 12))})
		}
	case "hist":
		n := r.Range(3, 10)
		for j := 0; j < n; j++ {
			switch m := r.Intn(100); {
			case m < 40:
				sc.Ops = append(sc.Ops, Op{Op: "exec", A: int64(r.Pick3(r.Intn(3), r.Intn(3), r.Intn(5)))})
			case m < 55:
				sc.Ops = append(sc.Ops, Op{Op: "cancel", S: fmt.Sprintf("why-%d", j)})
			case m < 70:
				sc.Ops = append(sc.Ops, Op{Op: "uncancel"})
			case m < 85:
				sc.Ops = append(sc.Ops, Op{Op: "setmax", A: int64(r.Range(1, 400))})
			case m < 90:
				sc.Ops = append(sc.Ops, Op{Op: "liftmax"})
			case m < 93:
				sc.Ops = append(sc.Ops, Op{Op: "call", A: int64(r.Intn(3))})
			default:
				// other ways into the interpreter: a REPL chunk, an expression,
				// a source file (cancellation and limits belong to the thread,
				// whatever the entry point)
				sc.Ops = append(sc.Ops, Op{Op: r.Pick([]string{"repl", "eval", "execfile"}), A: int64(r.Intn(3))})
			}
		}
	}
	return sc
}

func (r *Rng) Pick3(a, b, c int) int {
	switch r.Intn(3) {
	case 0:
		return a
	case 1:
		return b
	}
	return c
}

func randomSched(r *Rng, ntasks int) sched.Config {
	c := sched.Config{Seed: r.U64()}
	switch r.Intn(5) {
	case 0:
		c.Strategy = "random"
		c.Permille = r.Pick3(5, 50, 400)
	case 1:
		c.Strategy = "rr"
		c.Quantum = r.Pick3(1, 7, 50)
	case 2:
		c.Strategy = "pct"
		c.Depth = r.Range(1, 4)
		c.Horizon = r.Pick3(50, 500, 3000)
	case 3:
		c.Strategy = "random"
		c.Permille = 1000
	default:
		c.Strategy = "random"
		c.Permille = r.Range(1, 300)
	}
	return c
}

// ---------------------------------------------------------------------------

type c07run struct {
	ctx   *TaskCtx
	err   error
	panic any
	steps uint64
	depth int
}

// exec runs the scenario's program once on a fresh world/thread (unscheduled).
// c07world: a world whose threads can load the scenario's modules (non-caching
// loader, on the importing thread itself or on a fresh one).
func c07world(sc *Scenario, s *sched.Sched, faults []Fault) *World {
	w := NewWorld(s, faults)
	w.Mods, w.D, w.LoadSame = sc.Mods, sc.D, sc.Knob("loadsame", 0) == 1
	return w
}

func c07exec(sc *Scenario, prog *starlark.Program, faults []Fault, setup func(c *TaskCtx)) c07run {
	w := c07world(sc, nil, faults)
	c := w.NewCtx("main")
	pre := w.Predeclared()
	if setup != nil {
		setup(c)
	}
	var run c07run
	run.ctx = c
	run.panic = safeRun(func() { _, run.err = prog.Init(c.Th, pre) })
	run.steps = c.Th.ExecutionSteps()
	run.depth = c.Th.CallStackDepth()
	return run
}

const cancelPrefix = "Starlark computation cancelled: "

func isCancelErr(err error) (reason string, ok bool) {
	if err == nil {
		return "", false
	}
	msg := err.Error()
	if i := strings.Index(msg, cancelPrefix); i >= 0 {
		return msg[i+len(cancelPrefix):], true
	}
	return "", false
}

func sameStrings(a, b []string) bool {
	if len(a) != len(b) {
		return false
	}
	for i := range a {
		if a[i] != b[i] {
			return false
		}
	}
	return true
}

func diffStrings(a, b []string) string {
	for i := 0; i < len(a) || i < len(b); i++ {
		var x, y string = "<missing>", "<missing>"
		if i < len(a) {
			x = a[i]
		}
		if i < len(b) {
			y = b[i]
		}
		if x != y {
			return fmt.Sprintf("entry %d: got %.200q want %.200q (len got=%d want=%d)", i, x, y, len(a), len(b))
		}
	}
	return "equal"
}

func (p c07) Run(sc *Scenario) *Result {
	res := NewResult()
	pre := NewWorld(nil, nil).Predeclared()
	prog, err := Compile(sc.D, "main.star", sc.Source(), pre)
	if err != nil {
		res.Invalid = true
		return res
	}
	res.Sig = mix64(hashStr(sc.Source()), hashStr(sc.Family))
	// Reference run: cap only (so non-terminating programs end).
	ref := c07exec(sc, prog, nil, func(c *TaskCtx) { c.Th.SetMaxExecutionSteps(c07Cap) })
	res.Evals++
	if ref.panic != nil {
		res.Count("ref_panicked", 1)
		return res // outside C07
	}
	S := ref.ctx.Exec
	res.Mix(ref.ctx.Transcript()...)
	res.Mix(outcome(ref.err), fmt.Sprint(S, ref.steps))
	_, long := isCancelErr(ref.err)
	if long {
		res.Count("nonterminating_programs", 1)
	}
	if ref.err != nil && !long {
		res.Count("programs_ending_in_error", 1)
	}
	// Repeat the reference: the step count needed is the same on every run.
	for k := 0; k < 2; k++ {
		again := c07exec(sc, prog, nil, func(c *TaskCtx) { c.Th.SetMaxExecutionSteps(c07Cap) })
		res.Evals++
		if again.steps != ref.steps || again.ctx.Exec != S {
			res.Violate("steps-not-reproducible", "run %d: ExecutionSteps=%d executed=%d, first run %d/%d", k+2, again.steps, again.ctx.Exec, ref.steps, S)
		}
		if outcome(again.err) != outcome(ref.err) || !sameStrings(again.ctx.Transcript(), ref.ctx.Transcript()) {
			res.Violate("rerun-differs", "outcome %q vs %q; %s", outcome(again.err), outcome(ref.err), diffStrings(again.ctx.Transcript(), ref.ctx.Transcript()))
		}
	}
	switch sc.Family {
	case "cut", "onmax":
		p.runCuts(sc, prog, ref, S, long, res)
	case "bcancel":
		p.runBuiltinCancel(sc, prog, ref, S, res)
	case "async":
		p.runAsync(sc, prog, ref, res)
	case "hist":
		p.runHist(sc, prog, ref, S, long, res)
	}
	return res
}

func (p c07) limits(sc *Scenario, S uint64, long bool) []uint64 {
	if len(sc.Limits) > 0 {
		return sc.Limits
	}
	var out []uint64
	top := S + 2
	if long {
		top = S
	}
	if top <= 1500 {
		for n := uint64(1); n <= top; n++ {
			out = append(out, n)
		}
		return out
	}
	for n := uint64(1); n <= 600; n++ {
		out = append(out, n)
	}
	r := NewRng(mix64(sc.Seed, uint64(sc.Index)) ^ 0xabc)
	for n := uint64(600); n < top; n += uint64(r.Range(1, int(top/300)+2)) {
		out = append(out, n)
	}
	for n := top - 5; n <= top; n++ {
		out = append(out, n)
	}
	return out
}

func (p c07) runCuts(sc *Scenario, prog *starlark.Program, ref c07run, S uint64, long bool, res *Result) {
	delta := uint64(sc.Knob("delta", 0))
	for _, N := range p.limits(sc, S, long) {
		if N >= c07Cap {
			continue
		}
		mode := 0
		if sc.Family == "onmax" {
			mode = 1 + int(N%2)
		}
		eff := N // effective limit
		wantReason := "too many steps"
		run := c07exec(sc, prog, nil, func(c *TaskCtx) {
			c.Th.SetMaxExecutionSteps(N)
			switch mode {
			case 1: // handler cancels with its own reason
				c.Th.OnMaxSteps = func(th *starlark.Thread) { th.Cancel("budget exhausted") }
			case 2: // handler raises the limit once
				c.Th.OnMaxSteps = func(th *starlark.Thread) {
					th.OnMaxSteps = nil
					th.SetMaxExecutionSteps(N + delta)
				}
			}
			c.ExecLimit = N - 1
			if mode == 2 {
				c.ExecLimit = N + delta - 1
			}
		})
		if mode == 1 {
			wantReason = "budget exhausted"
		}
		if mode == 2 {
			eff = N + delta
			if eff >= c07Cap {
				continue
			}
		}
		res.Evals++
		c := run.ctx
		if run.panic != nil {
			res.Violate("panic-under-limit", "limit %d: panic %v", N, run.panic)
			continue
		}
		if c.LimitBroken != 0 || c.Exec > eff-1 {
			res.Violate("steps-exceeded", "limit %d (effective %d): %d instructions executed", N, eff, c.Exec)
		}
		reason, cancelled := isCancelErr(run.err)
		if S >= eff {
			res.Count("cuts_that_cut", 1)
			res.Nontrivial = true
			if !cancelled {
				res.Violate("not-cancelled", "limit %d (effective %d) on a computation of >=%d steps: outcome %q", N, eff, S, outcome(run.err))
			} else if reason != wantReason {
				res.Violate("wrong-reason", "limit %d: reason %q, want %q", N, reason, wantReason)
			}
		} else {
			res.Count("cuts_above", 1)
			if cancelled {
				res.Violate("spurious-cancel", "limit %d (effective %d) killed a computation of %d steps: %s", N, eff, S, errText(run.err))
			} else if outcome(run.err) != outcome(ref.err) {
				res.Violate("outcome-differs", "limit %d: %q vs reference %q", N, outcome(run.err), outcome(ref.err))
			}
		}
		if want := ref.ctx.TranscriptUpTo(c.Exec); !sameStrings(c.Transcript(), want) {
			res.Violate("transcript-not-prefix", "limit %d, executed %d: %s", N, c.Exec, diffStrings(c.Transcript(), want))
		}
		if run.depth != 0 {
			res.Violate("stack-depth", "limit %d: CallStackDepth()=%d after return", N, run.depth)
		}
	}
}

func (p c07) runBuiltinCancel(sc *Scenario, prog *starlark.Program, ref c07run, S uint64, res *Result) {
	B := ref.ctx.Calls
	res.Count("host_builtin_calls", int64(B))
	ks := sc.Limits
	if len(ks) == 0 {
		for k := uint64(1); k <= B && k <= 400; k++ {
			ks = append(ks, k)
		}
	}
	for _, k := range ks {
		reason := fmt.Sprintf("host-cancel-%d", k)
		var atCancel uint64
		faults := []Fault{{Kind: "cancel", Task: 0, Trigger: "call", K: k, Payload: reason}}
		run := c07exec(sc, prog, faults, func(c *TaskCtx) { c.Th.SetMaxExecutionSteps(c07Cap) })
		res.Evals++
		c := run.ctx
		if c.Fired["cancel"] == 0 {
			continue
		}
		res.Count("fault_cancel_in_builtin", 1)
		res.Nontrivial = true
		// Exec at the time of the cancel: the entry index of the call. We
		// recover it from the reference: the k-th host call happened at the
		// same instruction count in both runs (same program, same prefix).
		atCancel = c.ExecAtFault
		if run.panic != nil {
			res.Violate("panic-under-cancel", "cancel at host call %d: panic %v", k, run.panic)
			continue
		}
		if c.Exec != atCancel {
			res.Violate("exec-after-cancel", "Cancel inside host call %d (after %d instructions): %d further instruction(s) executed", k, atCancel, c.Exec-atCancel)
		}
		got, cancelled := isCancelErr(run.err)
		if !cancelled {
			res.Violate("not-cancelled", "Cancel inside host call %d: outcome %q", k, outcome(run.err))
		} else if got != reason {
			res.Violate("wrong-reason", "Cancel inside host call %d: reason %q want %q", k, got, reason)
		}
		if want := ref.ctx.TranscriptUpTo(atCancel); !isPrefix(c.Transcript(), want) || (atCancel > 0 && len(c.Transcript()) < len(ref.ctx.TranscriptUpTo(atCancel-1))) {
			res.Violate("transcript-not-prefix", "cancel at host call %d: %s", k, diffStrings(c.Transcript(), want))
		}
		if run.depth != 0 {
			res.Violate("stack-depth", "cancel at host call %d: depth %d", k, run.depth)
		}
		// cancellation stays in force for later executions on that thread
		before := c.Exec
		_, err2 := prog.Init(c.Th, c.W.Predeclared())
		res.Evals++
		if r2, ok := isCancelErr(err2); !ok || r2 != reason || c.Exec != before {
			res.Violate("cancel-not-sticky", "re-execution on the cancelled thread: outcome %q, %d instructions executed", outcome(err2), c.Exec-before)
		}
		c.Th.Uncancel()
		c.Th.SetMaxExecutionSteps(c.Th.ExecutionSteps() + c07Cap)
		before = c.Exec
		c.Tr = nil
		_, err3 := prog.Init(c.Th, c.W.Predeclared())
		res.Evals++
		if _, ok := isCancelErr(err3); ok && c.Exec == before {
			res.Violate("uncancel-ineffective", "after Uncancel nothing ran: %q", outcome(err3))
		}
	}
}

func isPrefix(a, b []string) bool {
	if len(a) > len(b) {
		return false
	}
	for i := range a {
		if a[i] != b[i] {
			return false
		}
	}
	return true
}

// ---------------------------------------------------------------------------
// async family

func (p c07) runAsync(sc *Scenario, prog *starlark.Program, ref c07run, res *Result) {
	s := sched.New(sc.Sched)
	w := c07world(sc, s, sc.Faults)
	c := w.NewCtx("main")
	c.YieldInVM = true
	c.TickPerExec = 1
	c.Th.SetMaxExecutionSteps(c07Cap * 4)
	pre := w.Predeclared()
	m := &cancelModel{}
	c.Model = m
	// Same behaviour as the default handler, but the reference register
	// learns about the budget cancel at the instant it happens.
	c.Th.OnMaxSteps = func(th *starlark.Thread) {
		th.Cancel("too many steps")
		m.cancel("too many steps")
	}
	var run c07run
	run.ctx = c
	var retSeq uint64
	s.Spawn("thread", func(t *sched.Task) {
		c.T = t
		t.Emit(EvStart, 0, 0, "")
		run.panic = safeRun(func() { _, run.err = prog.Init(c.Th, pre) })
		retSeq = t.Emit(EvReturn, 0, 0, "")
	})
	for i := range sc.Cancels {
		cs := sc.Cancels[i]
		s.Spawn(fmt.Sprintf("canceller%d", i), func(t *sched.Task) {
			for k := 0; k < cs.After; k++ {
				t.Yield()
			}
			if cs.Uncancel {
				c.Th.Uncancel()
				m.uncancel()
				t.Emit(EvUncancel, 0, 0, "")
			} else {
				c.Th.Cancel(cs.Reason)
				m.cancel(cs.Reason)
				t.Emit(EvCancel, hashStr(cs.Reason), 0, "")
			}
		})
	}
	s.Run()
	res.Evals++
	res.addSched(s)
	for k, v := range c.Fired {
		res.Count("fault_"+k, int64(v))
	}
	if s.Overrun() {
		res.Violate("no-progress", "simulation exceeded its scheduling-point budget (thread did not stop)")
	}
	if run.panic != nil {
		res.Violate("panic-under-cancel", "panic %v", run.panic)
		return
	}
	_ = retSeq
	reason, cancelled := isCancelErr(run.err)
	if c.ExecWhileCancelled > 0 {
		res.Violate("exec-after-cancel", "%d instruction(s) executed although the thread had been cancelled (reason %q) before the check; first at instruction %d", c.ExecWhileCancelled, c.FirstBadReason, c.FirstBadExec)
	}
	if m.everSeen() {
		res.Nontrivial = true
		res.Count("async_cancel_landed_while_running", 1)
		if c.CancelInBuiltin > 0 {
			res.Count("probe_cancel_landed_inside_builtin", 1)
		}
	}
	if c.RegAtCheck != "" || c.RegAtCheckSet {
		// the last check saw a reason: the thread must have returned it
		if !cancelled {
			res.Violate("not-cancelled", "thread observed cancellation %q at its last check but returned %q", c.RegAtCheck, outcome(run.err))
		} else if reason != c.RegAtCheck {
			res.Violate("wrong-reason", "error names %q; the first reason since the last Uncancel was %q", reason, c.RegAtCheck)
		}
	} else if cancelled && reason != "too many steps" {
		res.Violate("spurious-cancel", "thread failed with %q although no cancellation was in force at any of its checks", reason)
	} else if !cancelled {
		// never cancelled while running: same result as the reference
		if _, refLong := isCancelErr(ref.err); !refLong {
			if outcome(run.err) != outcome(ref.err) || !sameStrings(c.Transcript(), ref.ctx.Transcript()) {
				res.Violate("outcome-differs", "uncancelled run differs from reference: %q vs %q; %s", outcome(run.err), outcome(ref.err), diffStrings(c.Transcript(), ref.ctx.Transcript()))
			}
		}
	}
	if !isPrefix(c.Transcript(), ref.ctx.Transcript()) {
		if _, refLong := isCancelErr(ref.err); !refLong || len(c.Transcript()) <= len(ref.ctx.Transcript()) {
			res.Violate("transcript-not-prefix", "%s", diffStrings(c.Transcript(), ref.ctx.Transcript()))
		}
	}
	if c.Th.CallStackDepth() != 0 {
		res.Violate("stack-depth", "depth %d after return", c.Th.CallStackDepth())
	}
	// Cancellation stays in force until reset — checked against the model's
	// final register (all tasks have finished, so it is stable now).
	final, set := m.read()
	before := c.Exec
	c.T = nil
	c.YieldInVM = false
	c.Model = nil
	c.NoFaults = true
	_, err2 := prog.Init(c.Th, pre)
	res.Evals++
	r2, ok2 := isCancelErr(err2)
	if set {
		if !ok2 || r2 != final || c.Exec != before {
			res.Violate("cancel-not-sticky", "thread still cancelled (%q) but re-execution gave %q after %d instructions", final, outcome(err2), c.Exec-before)
		}
	} else if ok2 && r2 != "too many steps" {
		res.Violate("uncancel-ineffective", "no cancellation in force but re-execution failed with %q", r2)
	}
	res.Sig = mix64(res.Sig, s.SwitchSig())
}

// cancelModel is the reference model of a thread's cancellation register:
// first writer wins until reset. It is shared by simulated tasks, which the
// scheduler serialises; all access is in norace code so that the race
// detector (when enabled) only looks at starlark-go.
type cancelModel struct {
	reason string
	set    bool
	seen   bool
}

//go:norace
func (m *cancelModel) cancel(r string) {
	if !m.set {
		m.set = true
		m.reason = r
	}
}

//go:norace
func (m *cancelModel) uncancel() { m.set = false; m.reason = "" }

//go:norace
func (m *cancelModel) read() (string, bool) { return m.reason, m.set }

//go:norace
func (m *cancelModel) markSeen() { m.seen = true }

//go:norace
func (m *cancelModel) everSeen() bool { return m.seen }

// ---------------------------------------------------------------------------
// hist family: operation histories on one thread against a small model.

func (p c07) runHist(sc *Scenario, prog *starlark.Program, ref c07run, S uint64, long bool, res *Result) {
	if long || ref.panic != nil {
		return
	}
	w := c07world(sc, nil, nil)
	c := w.NewCtx("main")
	pre := w.Predeclared()
	// Small auxiliary programs with known cost.
	aux := []string{"x = 1\n", "def f(n):\n    t = 0\n    for i in range(n):\n        t += i\n    return t\ny = f(20)\nprobe(y)\n", "z = [i * i for i in range(15)]\nprobe(len(z))\n", "pass\n", "def k0():\n    return \"ok\"\nk1 = lambda: 0\n"}
	var auxProg []*starlark.Program
	var auxS []uint64
	for i, src := range aux {
		pg, err := Compile(sc.D, fmt.Sprintf("aux%d.star", i), src, pre)
		if err != nil {
			res.Invalid = true
			return
		}
		r := c07exec(sc, pg, nil, nil)
		auxProg = append(auxProg, pg)
		auxS = append(auxS, r.ctx.Exec)
	}
	// model
	var mReason string
	var mSet bool
	limit := uint64(math.MaxUint64)
	var cancelledExecs, failedSince uint64
	var replGlobals starlark.StringDict
	// callable for "call" ops
	g, err := prog.Init(c.Th, pre)
	res.Evals++
	if _, isC := isCancelErr(err); isC {
		return
	}
	var fns []starlark.Value
	// functions whose body is a single constant (an execution all the same:
	// cancellation and limits belong to the thread)
	if cg, cerr := starlark.ExecFileOptions(sc.D.FileOptions(), &starlark.Thread{Name: "consts"}, "consts.star", "def c0():\n    pass\ndef c1():\n    return \"ok\"\nc2 = lambda: 0\nc3 = lambda: 1.5\n", nil); cerr == nil {
		for _, name := range cg.Keys() {
			fns = append(fns, cg[name])
		}
	}
	for _, name := range g.Keys() {
		if f, ok := g[name].(*starlark.Function); ok && f.NumParams() == 0 {
			fns = append(fns, f)
		}
	}
	for i, op := range sc.Ops {
		before := c.Exec
		switch op.Op {
		case "cancel":
			c.Th.Cancel(op.S)
			if !mSet {
				mSet, mReason = true, op.S
			}
		case "uncancel":
			c.Th.Uncancel()
			mSet, mReason = false, ""
		case "setmax":
			failedSince = 0
			limit = c.Exec + uint64(op.A)
			c.Th.SetMaxExecutionSteps(c.Th.ExecutionSteps() + uint64(op.A))
		case "liftmax":
			limit = math.MaxUint64
			c.Th.SetMaxExecutionSteps(math.MaxUint64)
		case "exec", "call", "repl", "eval", "execfile":
			var err error
			var need uint64
			k := int(op.A) % len(auxProg)
			if op.Op == "repl" || op.Op == "eval" || op.Op == "execfile" {
				need = 0 // cost not modelled: the cancelled-thread and limit clauses apply
				pv := safeRun(func() {
					switch op.Op {
					case "repl":
						f, perr := sc.D.FileOptions().Parse("chunk.star", aux[k], 0)
						if perr != nil {
							return
						}
						if replGlobals == nil {
							replGlobals = starlark.StringDict{}
							for name, v := range pre {
								replGlobals[name] = v
							}
						}
						err = starlark.ExecREPLChunk(f, c.Th, replGlobals)
					case "eval":
						_, err = starlark.EvalOptions(sc.D.FileOptions(), c.Th, "expr.star", "sorted([q * q for q in range(12)], reverse=True)[0] + len(str(probe))", pre)
					default:
						_, err = starlark.ExecFileOptions(sc.D.FileOptions(), c.Th, "file.star", aux[k], pre)
					}
				})
				if pv != nil {
					return
				}
			} else if op.Op == "call" && len(fns) > 0 {
				// cost unknown: only the cancelled-case clauses apply
				need = 0
				pv := safeRun(func() { _, err = starlark.Call(c.Th, fns[(int(op.A)+i*5)%len(fns)], nil, nil) })
				if pv != nil {
					return
				}
			} else {
				need = auxS[k]
				_, err = auxProg[k].Init(c.Th, pre)
			}
			res.Evals++
			ran := c.Exec - before
			reason, cancelled := isCancelErr(err)
			switch {
			case mSet:
				res.Nontrivial = true
				res.Count("exec_while_cancelled", 1)
				if ran != 0 {
					res.Violate("exec-after-cancel", "op %d: execution started on a cancelled thread ran %d instruction(s)", i, ran)
				}
				if !cancelled || reason != mReason {
					res.Violate("cancel-not-sticky", "op %d: thread cancelled with %q; execution returned %q", i, mReason, outcome(err))
				}
				cancelledExecs++
				failedSince++
			case limit != math.MaxUint64:
				// The handle on the limit is Thread.Steps (cumulative), whose
				// relation to executed instructions differs by the number of
				// failed checks; use only the sound consequences.
				if c.Exec >= limit && ran > 0 {
					res.Violate("steps-exceeded", "op %d: cumulative limit allows fewer than %d more instructions, %d executed", i, int64(limit-before), ran)
				}
				if cancelled {
					res.Nontrivial = true
					res.Count("exec_cut_by_cumulative_limit", 1)
					if reason != "too many steps" {
						res.Violate("wrong-reason", "op %d: %q", i, reason)
					}
					// the default handler cancels the thread: stays in force
					mSet, mReason = true, "too many steps"
					if need > 0 && before+need+failedSince+1 < limit {
						res.Violate("spurious-cancel", "op %d: %d instructions needed, %d allowed, yet cancelled", i, need, int64(limit-before)-1)
					}
					cancelledExecs++
					failedSince++
				} else if need > 0 && before+need >= limit {
					res.Violate("not-cancelled", "op %d: needed %d instructions with only %d allowed, outcome %q", i, need, int64(limit-before), outcome(err))
				}
			default:
				if cancelled {
					res.Violate("spurious-cancel", "op %d: no limit and not cancelled, yet %q", i, reason)
				}
				if need > 0 && ran != need {
					res.Violate("steps-not-reproducible", "op %d: aux program %d ran %d instructions, %d when alone", i, k, ran, need)
				}
			}
			if c.Th.CallStackDepth() != 0 {
				res.Violate("stack-depth", "op %d: depth %d", i, c.Th.CallStackDepth())
			}
		}
	}
}

// ---------------------------------------------------------------------------

func (c07) Shrink(sc *Scenario) []*Scenario {
	var out []*Scenario
	// fewer cancellers
	for i := range sc.Cancels {
		c := sc.Clone()
		c.Cancels = append(c.Cancels[:i], c.Cancels[i+1:]...)
		out = append(out, c)
	}
	for i := range sc.Cancels {
		if sc.Cancels[i].After > 0 {
			c := sc.Clone()
			c.Cancels[i].After /= 2
			out = append(out, c)
		}
	}
	for i := range sc.Faults {
		c := sc.Clone()
		c.Faults = append(c.Faults[:i], c.Faults[i+1:]...)
		out = append(out, c)
	}
	for i := range sc.Ops {
		c := sc.Clone()
		c.Ops = append(c.Ops[:i], c.Ops[i+1:]...)
		out = append(out, c)
	}
	return out
}

func (c07) Shape(sc *Scenario, class string) string {
	return class + "/" + sc.Family
}
