package main

// Rng is a splitmix64 stream. Every random choice of a generator comes from
// one of these, seeded from VERIF_SEED and the scenario index.
type Rng struct{ s uint64 }

func NewRng(seed uint64) *Rng { return &Rng{s: seed*0x9E3779B97F4A7C15 + 0xD1B54A32D192ED03} }

func (r *Rng) U64() uint64 {
	r.s += 0x9E3779B97F4A7C15
	z := r.s
	z = (z ^ (z >> 30)) * 0xBF58476D1CE4E5B9
	z = (z ^ (z >> 27)) * 0x94D049BB133111EB
	return z ^ (z >> 31)
}

// Intn returns a value in [0,n). n<=0 yields 0.
func (r *Rng) Intn(n int) int {
	if n <= 1 {
		return 0
	}
	return int(r.U64() % uint64(n))
}

// Range returns a value in [lo,hi].
func (r *Rng) Range(lo, hi int) int {
	if hi <= lo {
		return lo
	}
	return lo + r.Intn(hi-lo+1)
}

// Chance reports true with probability num/den.
func (r *Rng) Chance(num, den int) bool { return r.Intn(den) < num }

func (r *Rng) Bool() bool { return r.U64()&1 == 1 }

func (r *Rng) Pick(xs []string) string {
	if len(xs) == 0 {
		return ""
	}
	return xs[r.Intn(len(xs))]
}

// Fork derives an independent stream.
func (r *Rng) Fork() *Rng { return NewRng(r.U64()) }

func mix64(a, b uint64) uint64 {
	z := a ^ (b+0x9E3779B97F4A7C15)*0xBF58476D1CE4E5B9
	z = (z ^ (z >> 30)) * 0xBF58476D1CE4E5B9
	z = (z ^ (z >> 27)) * 0x94D049BB133111EB
	return z ^ (z >> 31)
}

func hashStr(s string) uint64 {
	h := uint64(0xcbf29ce484222325)
	for i := 0; i < len(s); i++ {
		h = (h ^ uint64(s[i])) * 0x100000001b3
	}
	return h
}
