package main

import (
	"bytes"
	"fmt"
	"math"
	"math/big"
	"runtime/debug"
	"sort"
	"strings"
	"sync"

	"google.golang.org/protobuf/proto"
	"google.golang.org/protobuf/reflect/protodesc"
	"google.golang.org/protobuf/reflect/protoreflect"
	"google.golang.org/protobuf/reflect/protoregistry"
	"google.golang.org/protobuf/types/dynamicpb"
	"google.golang.org/protobuf/types/descriptorpb"

	starproto "go.starlark.net/lib/proto"
	"go.starlark.net/starlark"
)

// C20 — protocol messages stay well-typed, lossless and respect freezing.
//
// A scenario is a history of construct / assign / alias / copy / freeze /
// mutate / round-trip operations over a handful of message variables of a
// descriptor set built in Go (all scalar kinds, an enum, nested and recursive
// message fields, repeated scalars and messages, three map fields). Every op
// is a small Starlark program run through the real VM on the same objects;
// after every op the host walks all live messages with protoreflect.

type c20 struct{}

func init() { register(c20{}) }

func (c20) ID() string    { return "C20" }
func (c20) Level() string { return "exploration" }
func (c20) Rule() string {
	return "seeded histories (1-16 ops) of construct / field, element and map-entry assignment with boundary values (min-1, min, max, max+1, wrong type, None) for every scalar kind / alias (o.sub = m.sub, o.rep = m.rep, o.map = m.map, self-assignment) / copy Msg(m) / freeze / mutate through views and sub-messages / binary and text round trip, over 4 message variables. A case is one history; distinct = distinct hash of the op list; non-trivial = at least one assignment was rejected and one accepted, or a frozen message existed while a later op ran"
}
func (c20) Components() map[string]string {
	return map[string]string{
		"lib/proto (Message, RepeatedField, MapField, toProto, setField, freeze flags)": "real",
		"google.golang.org/protobuf dynamicpb / proto / prototext":                      "real",
		"descriptor set": "built in Go with descriptorpb + protodesc (simulator)",
		"VM":             "real (each op is a compiled Starlark snippet run on the shared objects)",
	}
}
func (c20) Budget(tier string) int {
	if tier == "thorough" {
		return 3000000
	}
	return 160000
}

// ---------------------------------------------------------------------------
// descriptors

var (
	c20once  sync.Once
	c20file  protoreflect.FileDescriptor
	c20msg   protoreflect.MessageDescriptor
	c20sub   protoreflect.MessageDescriptor
	c20color protoreflect.EnumDescriptor
	c20shape protoreflect.EnumDescriptor
	c20old   protoreflect.MessageDescriptor // proto2 message with an extension range
	c20exts  []protoreflect.ExtensionDescriptor
)

// kinds of the extension fields of Old, by index in c20exts
var c20extKinds = []string{"int32", "string", "uint64", "rep:int32"}

type c20field struct {
	name string
	kind string // scalar kind name, "msg:Sub", "msg:Msg", "rep:<kind>", "map:<k>:<v>"
}

var c20scalars = []c20field{
	{"f_bool", "bool"}, {"f_int32", "int32"}, {"f_sint32", "int32"}, {"f_sfixed32", "int32"}, {"f_uint32", "uint32"}, {"f_fixed32", "uint32"},
	{"f_int64", "int64"}, {"f_sint64", "int64"}, {"f_sfixed64", "int64"}, {"f_uint64", "uint64"}, {"f_fixed64", "uint64"},
	{"f_float", "float"}, {"f_double", "double"}, {"f_string", "string"}, {"f_bytes", "bytes"}, {"f_enum", "enum"}, {"f_shape", "shape"},
}

// every scalar kind also in repeated position, two enum types and two message types
var c20reps = []c20field{{"r_int32", "int32"}, {"r_uint64", "uint64"}, {"r_string", "string"}, {"r_bytes", "bytes"}, {"r_enum", "enum"}, {"r_sub", "msg:Sub"},
	{"r_bool", "bool"}, {"r_uint32", "uint32"}, {"r_int64", "int64"}, {"r_float", "float"}, {"r_double", "double"}, {"r_shape", "shape"}, {"r_rec", "msg:Msg"}}

// map positions: key kinds bool/int32/int64/uint32/uint64/string, value kinds incl. enum, bytes, double, float, messages
var c20maps = []c20field{{"m_ss", "string:string"}, {"m_isub", "int32:msg:Sub"}, {"m_u64", "uint64:int64"},
	{"m_bb", "bool:bytes"}, {"m_i64u32", "int64:uint32"}, {"m_u32d", "uint32:double"}, {"m_senum", "string:enum"}, {"m_srec", "string:msg:Msg"}, {"m_i32f", "int32:float"}, {"m_sshape", "string:shape"}}
var c20subScalars = []c20field{{"s", "string"}, {"n", "int64"}}

// c20allFields: every field name of Msg (sources for the "xset" op).
var c20allFields = func() []string {
	var out []string
	for _, fs := range [][]c20field{c20scalars, c20reps, c20maps} {
		for _, f := range fs {
			out = append(out, f.name)
		}
	}
	return append(out, "sub", "rec", "old")
}()

func c20descriptors() {
	c20once.Do(func() {
		T := descriptorpb.FieldDescriptorProto_Type.Enum
		L := descriptorpb.FieldDescriptorProto_Label.Enum
		opt, rep := descriptorpb.FieldDescriptorProto_LABEL_OPTIONAL, descriptorpb.FieldDescriptorProto_LABEL_REPEATED
		types := map[string]descriptorpb.FieldDescriptorProto_Type{
			"bool": descriptorpb.FieldDescriptorProto_TYPE_BOOL, "int32": descriptorpb.FieldDescriptorProto_TYPE_INT32,
			"sint32": descriptorpb.FieldDescriptorProto_TYPE_SINT32, "sfixed32": descriptorpb.FieldDescriptorProto_TYPE_SFIXED32,
			"uint32": descriptorpb.FieldDescriptorProto_TYPE_UINT32, "fixed32": descriptorpb.FieldDescriptorProto_TYPE_FIXED32,
			"int64": descriptorpb.FieldDescriptorProto_TYPE_INT64, "sint64": descriptorpb.FieldDescriptorProto_TYPE_SINT64,
			"sfixed64": descriptorpb.FieldDescriptorProto_TYPE_SFIXED64, "uint64": descriptorpb.FieldDescriptorProto_TYPE_UINT64,
			"fixed64": descriptorpb.FieldDescriptorProto_TYPE_FIXED64, "float": descriptorpb.FieldDescriptorProto_TYPE_FLOAT,
			"double": descriptorpb.FieldDescriptorProto_TYPE_DOUBLE, "string": descriptorpb.FieldDescriptorProto_TYPE_STRING,
			"bytes": descriptorpb.FieldDescriptorProto_TYPE_BYTES,
		}
		n := int32(0)
		field := func(name, typ string, label descriptorpb.FieldDescriptorProto_Label, typeName string) *descriptorpb.FieldDescriptorProto {
			n++
			f := &descriptorpb.FieldDescriptorProto{Name: proto.String(name), Number: proto.Int32(n), Label: L(label)}
			switch {
			case typ == "enum":
				f.Type = T(descriptorpb.FieldDescriptorProto_TYPE_ENUM)
				f.TypeName = proto.String(".simtest.Color")
			case typ == "shape":
				f.Type = T(descriptorpb.FieldDescriptorProto_TYPE_ENUM)
				f.TypeName = proto.String(".simtest.Shape")
			case typ == "msg":
				f.Type = T(descriptorpb.FieldDescriptorProto_TYPE_MESSAGE)
				f.TypeName = proto.String(typeName)
			default:
				f.Type = T(types[typ])
			}
			return f
		}
		mapEntry := func(name string, key, val *descriptorpb.FieldDescriptorProto) *descriptorpb.DescriptorProto {
			key.Name, key.Number = proto.String("key"), proto.Int32(1)
			val.Name, val.Number = proto.String("value"), proto.Int32(2)
			return &descriptorpb.DescriptorProto{Name: proto.String(name), Field: []*descriptorpb.FieldDescriptorProto{key, val},
				Options: &descriptorpb.MessageOptions{MapEntry: proto.Bool(true)}}
		}
		sub := &descriptorpb.DescriptorProto{Name: proto.String("Sub")}
		sub.Field = append(sub.Field, field("s", "string", opt, ""), field("n", "int64", opt, ""), field("r", "int32", rep, ""), field("child", "msg", opt, ".simtest.Sub"))
		n = 0
		msg := &descriptorpb.DescriptorProto{Name: proto.String("Msg")}
		realType := map[string]string{"f_sint32": "sint32", "f_sfixed32": "sfixed32", "f_fixed32": "fixed32", "f_sint64": "sint64", "f_sfixed64": "sfixed64", "f_fixed64": "fixed64"}
		for _, f := range c20scalars {
			t := f.kind
			if rt, ok := realType[f.name]; ok {
				t = rt
			}
			msg.Field = append(msg.Field, field(f.name, t, opt, ""))
		}
		msg.Field = append(msg.Field, field("sub", "msg", opt, ".simtest.Sub"), field("rec", "msg", opt, ".simtest.Msg"))
		for _, f := range c20reps {
			if strings.HasPrefix(f.kind, "msg:") {
				msg.Field = append(msg.Field, field(f.name, "msg", rep, ".simtest."+strings.TrimPrefix(f.kind, "msg:")))
			} else {
				msg.Field = append(msg.Field, field(f.name, f.kind, rep, ""))
			}
		}
		n = 60
		for _, f := range c20maps {
			kk, vk, _ := strings.Cut(f.kind, ":")
			entry := "M" + strings.ToUpper(f.name[2:3]) + f.name[3:] + "Entry"
			var vf *descriptorpb.FieldDescriptorProto
			if strings.HasPrefix(vk, "msg:") {
				vf = field("", "msg", opt, ".simtest."+strings.TrimPrefix(vk, "msg:"))
			} else {
				vf = field("", vk, opt, "")
			}
			msg.NestedType = append(msg.NestedType, mapEntry(entry, field("", kk, opt, ""), vf))
			msg.Field = append(msg.Field, field(f.name, "msg", rep, ".simtest.Msg."+entry))
		}
		// a proto2 file: a message with an extension range, and extensions of it
		// (proto.set_field / get_field / has exist for these)
		xf := func(name string, num int32, typ descriptorpb.FieldDescriptorProto_Type, label descriptorpb.FieldDescriptorProto_Label) *descriptorpb.FieldDescriptorProto {
			return &descriptorpb.FieldDescriptorProto{Name: proto.String(name), Number: proto.Int32(num), Type: T(typ), Label: L(label), Extendee: proto.String(".simtest2.Old")}
		}
		extfd := &descriptorpb.FileDescriptorProto{
			Name: proto.String("simext.proto"), Package: proto.String("simtest2"), Syntax: proto.String("proto2"),
			MessageType: []*descriptorpb.DescriptorProto{{
				Name:           proto.String("Old"),
				Field:          []*descriptorpb.FieldDescriptorProto{{Name: proto.String("a"), Number: proto.Int32(1), Type: T(descriptorpb.FieldDescriptorProto_TYPE_INT32), Label: L(opt)}},
				ExtensionRange: []*descriptorpb.DescriptorProto_ExtensionRange{{Start: proto.Int32(100), End: proto.Int32(200)}},
			}},
			Extension: []*descriptorpb.FieldDescriptorProto{
				xf("ext_i", 100, descriptorpb.FieldDescriptorProto_TYPE_INT32, opt), xf("ext_s", 101, descriptorpb.FieldDescriptorProto_TYPE_STRING, opt),
				xf("ext_u", 102, descriptorpb.FieldDescriptorProto_TYPE_UINT64, opt), xf("ext_r", 103, descriptorpb.FieldDescriptorProto_TYPE_INT32, rep),
			},
		}
		extFile, err := protodesc.NewFile(extfd, nil)
		if err != nil {
			panic("c20 descriptors (ext): " + err.Error())
		}
		files := new(protoregistry.Files)
		if err := files.RegisterFile(extFile); err != nil {
			panic("c20 descriptors (ext): " + err.Error())
		}
		c20old = extFile.Messages().ByName("Old")
		for i := 0; i < extFile.Extensions().Len(); i++ {
			xd := extFile.Extensions().Get(i)
			c20exts = append(c20exts, xd)
			// known to the default resolver, so that unmarshal / unmarshal_text
			// of a message carrying them give them back as fields
			protoregistry.GlobalTypes.RegisterExtension(dynamicpb.NewExtensionType(xd))
		}
		n = 90
		msg.Field = append(msg.Field, field("old", "msg", opt, ".simtest2.Old"))
		fd := &descriptorpb.FileDescriptorProto{
			Dependency: []string{"simext.proto"},
			Name: proto.String("simtest.proto"), Package: proto.String("simtest"), Syntax: proto.String("proto3"),
			MessageType: []*descriptorpb.DescriptorProto{sub, msg},
			EnumType: []*descriptorpb.EnumDescriptorProto{{Name: proto.String("Color"), Value: []*descriptorpb.EnumValueDescriptorProto{
				{Name: proto.String("RED"), Number: proto.Int32(0)}, {Name: proto.String("GREEN"), Number: proto.Int32(1)}, {Name: proto.String("BLUE"), Number: proto.Int32(5)}}},
				{Name: proto.String("Shape"), Value: []*descriptorpb.EnumValueDescriptorProto{
					{Name: proto.String("CIRCLE"), Number: proto.Int32(0)}, {Name: proto.String("SQUARE"), Number: proto.Int32(2)}, {Name: proto.String("TRIANGLE"), Number: proto.Int32(9)}}}},
		}
		f, err := protodesc.NewFile(fd, files)
		if err != nil {
			panic("c20 descriptors: " + err.Error())
		}
		c20file = f
		c20msg = f.Messages().ByName("Msg")
		c20sub = f.Messages().ByName("Sub")
		c20color = f.Enums().ByName("Color")
		c20shape = f.Enums().ByName("Shape")
	})
}

// ---------------------------------------------------------------------------
// value pool

func bigv(s string) starlark.Value {
	b, _ := new(big.Int).SetString(s, 10)
	return starlark.MakeBigInt(b)
}

// c20newMsg builds a fresh message with one string field set (Go API).
func c20newMsg(d protoreflect.MessageDescriptor, field, val string) starlark.Value {
	m, err := starlark.Call(&starlark.Thread{Name: "mk"}, starproto.MessageDescriptor{Desc: d}, nil, []starlark.Tuple{{starlark.String(field), starlark.String(val)}})
	if err != nil {
		panic("c20newMsg: " + err.Error())
	}
	return m
}

func c20newMsgInt(d protoreflect.MessageDescriptor, field string, val int) starlark.Value {
	m, err := starlark.Call(&starlark.Thread{Name: "mk"}, starproto.MessageDescriptor{Desc: d}, nil, []starlark.Tuple{{starlark.String(field), starlark.MakeInt(val)}})
	if err != nil {
		panic("c20newMsgInt: " + err.Error())
	}
	return m
}

type c20val struct {
	v    func() starlark.Value
	desc string
}

var c20pool = []c20val{
	{func() starlark.Value { return starlark.None }, "None"},
	{func() starlark.Value { return starlark.True }, "True"},
	{func() starlark.Value { return starlark.MakeInt(0) }, "0"},
	{func() starlark.Value { return starlark.MakeInt(1) }, "1"},
	{func() starlark.Value { return starlark.MakeInt(-1) }, "-1"},
	{func() starlark.Value { return bigv("2147483647") }, "2^31-1"},
	{func() starlark.Value { return bigv("2147483648") }, "2^31"},
	{func() starlark.Value { return bigv("-2147483648") }, "-2^31"},
	{func() starlark.Value { return bigv("-2147483649") }, "-2^31-1"},
	{func() starlark.Value { return bigv("4294967295") }, "2^32-1"},
	{func() starlark.Value { return bigv("4294967296") }, "2^32"},
	{func() starlark.Value { return bigv("9223372036854775807") }, "2^63-1"},
	{func() starlark.Value { return bigv("9223372036854775808") }, "2^63"},
	{func() starlark.Value { return bigv("-9223372036854775808") }, "-2^63"},
	{func() starlark.Value { return bigv("-9223372036854775809") }, "-2^63-1"},
	{func() starlark.Value { return bigv("18446744073709551615") }, "2^64-1"},
	{func() starlark.Value { return bigv("18446744073709551616") }, "2^64"},
	{func() starlark.Value { return starlark.Float(1.5) }, "1.5"},
	{func() starlark.Value { return starlark.Float(3) }, "3.0"},
	{func() starlark.Value { return starlark.String("héllo wörld ✓") }, "str"},
	{func() starlark.Value { return starlark.String("") }, "empty-str"},
	{func() starlark.Value { return starlark.Bytes("\xff\x00\x80raw") }, "bytes-nonutf8"},
	{func() starlark.Value { return starlark.Bytes("") }, "empty-bytes"},
	{func() starlark.Value { return starlark.String("GREEN") }, "\"GREEN\""},
	{func() starlark.Value { return starlark.String("PURPLE") }, "\"PURPLE\""},
	{func() starlark.Value { return starlark.MakeInt(5) }, "5"},
	{func() starlark.Value { return starlark.MakeInt(7) }, "7"},
	{func() starlark.Value {
		return starproto.EnumValueDescriptor{Desc: c20color.Values().ByName("GREEN")}
	}, "Color.GREEN"},
	{func() starlark.Value {
		d := starlark.NewDict(2)
		d.SetKey(starlark.String("s"), starlark.String("from-dict"))
		d.SetKey(starlark.String("n"), starlark.MakeInt(5))
		return d
	}, "dict-sub"},
	{func() starlark.Value {
		return starlark.NewList([]starlark.Value{starlark.MakeInt(1), starlark.MakeInt(2), starlark.MakeInt(3)})
	}, "[1,2,3]"},
	{func() starlark.Value {
		return starlark.NewList([]starlark.Value{starlark.MakeInt(1), starlark.String("x")})
	}, "[1,\"x\"]"},
	{func() starlark.Value {
		return starlark.NewList([]starlark.Value{starlark.String("a"), starlark.String("b")})
	}, "[\"a\",\"b\"]"},
	{func() starlark.Value {
		d := starlark.NewDict(1)
		d.SetKey(starlark.String("k"), starlark.String("v"))
		return d
	}, "{\"k\":\"v\"}"},
	{func() starlark.Value {
		d := starlark.NewDict(1)
		d.SetKey(starlark.String("a"), starlark.MakeInt(1))
		return d
	}, "{\"a\":1}"},
	{func() starlark.Value {
		return starlark.NewList([]starlark.Value{bigv("18446744073709551615"), starlark.MakeInt(0)})
	}, "[2^64-1,0]"},
	{func() starlark.Value {
		return starlark.NewList([]starlark.Value{starlark.Bytes("\xfe\xff"), starlark.Bytes("")})
	}, "[bytes]"},
	{func() starlark.Value {
		mk := func(s string) starlark.Value {
			d := starlark.NewDict(1)
			d.SetKey(starlark.String("s"), starlark.String(s))
			return d
		}
		return starlark.NewList([]starlark.Value{mk("a"), mk("b")})
	}, "[sub-dicts]"},
	{func() starlark.Value {
		inner := starlark.NewDict(1)
		inner.SetKey(starlark.String("s"), starlark.String("m"))
		d := starlark.NewDict(1)
		d.SetKey(starlark.MakeInt(1), inner)
		return d
	}, "{1:sub-dict}"},
	{func() starlark.Value {
		d := starlark.NewDict(2)
		d.SetKey(bigv("18446744073709551615"), bigv("-9223372036854775808"))
		d.SetKey(starlark.MakeInt(5), starlark.MakeInt(7))
		return d
	}, "{2^64-1:-2^63,5:7}"},
	{func() starlark.Value {
		return starlark.NewList([]starlark.Value{starlark.String("GREEN"), starlark.MakeInt(5)})
	}, "[enums]"},
	// (entries below were added later: findings refer to pool entries by index, so new ones go at the end)
	{func() starlark.Value {
		return starproto.EnumValueDescriptor{Desc: c20shape.Values().ByName("TRIANGLE")}
	}, "Shape.TRIANGLE"},
	{func() starlark.Value { return starlark.String("SQUARE") }, "\"SQUARE\""},
	{func() starlark.Value { return starlark.MakeInt(9) }, "9"},
	{func() starlark.Value { return starlark.MakeInt(2) }, "2"},
	{func() starlark.Value { return starlark.False }, "False"},
	{func() starlark.Value { return starlark.Float(math.Inf(1)) }, "+inf"},
	{func() starlark.Value { return starlark.Float(math.Copysign(0, -1)) }, "-0.0"},
	{func() starlark.Value { return starlark.Float(1e300) }, "1e300"},
	{func() starlark.Value { return c20newMsg(c20sub, "s", "a-sub-message") }, "Sub(s=..)"},
	{func() starlark.Value { return c20newMsg(c20msg, "f_string", "a-msg-message") }, "Msg(f_string=..)"},
	{func() starlark.Value {
		return starlark.NewList([]starlark.Value{c20newMsg(c20sub, "s", "e0"), c20newMsg(c20sub, "s", "e1")})
	}, "[Sub,Sub]"},
	{func() starlark.Value {
		return starlark.NewList([]starlark.Value{c20newMsg(c20msg, "f_string", "e0"), c20newMsg(c20sub, "s", "e1")})
	}, "[Msg,Sub]"},
	{func() starlark.Value {
		return starlark.NewList([]starlark.Value{starproto.EnumValueDescriptor{Desc: c20shape.Values().ByName("SQUARE")}, starlark.MakeInt(9)})
	}, "[shapes]"},
	{func() starlark.Value {
		return starlark.NewList([]starlark.Value{starproto.EnumValueDescriptor{Desc: c20color.Values().ByName("BLUE")}, starproto.EnumValueDescriptor{Desc: c20shape.Values().ByName("SQUARE")}})
	}, "[Color,Shape]"},
	{func() starlark.Value { return starlark.Tuple{starlark.True, starlark.False} }, "(True,False)"},
	{func() starlark.Value {
		return starlark.NewList([]starlark.Value{starlark.Float(1.5), starlark.MakeInt(2), starlark.Float(math.Copysign(0, -1))})
	}, "[floats]"},
	{func() starlark.Value {
		return starlark.NewList([]starlark.Value{bigv("4294967295"), starlark.MakeInt(0)})
	}, "[2^32-1,0]"},
	{func() starlark.Value {
		return starlark.NewList([]starlark.Value{bigv("-9223372036854775808"), bigv("9223372036854775807")})
	}, "[int64 extremes]"},
	{func() starlark.Value {
		d := starlark.NewDict(2)
		d.SetKey(starlark.True, starlark.Bytes("\xff\x00"))
		d.SetKey(starlark.False, starlark.Bytes(""))
		return d
	}, "{bool:bytes}"},
	{func() starlark.Value {
		d := starlark.NewDict(2)
		d.SetKey(bigv("-9223372036854775808"), bigv("4294967295"))
		d.SetKey(starlark.MakeInt(3), starlark.MakeInt(0))
		return d
	}, "{int64:uint32}"},
	{func() starlark.Value {
		d := starlark.NewDict(2)
		d.SetKey(bigv("4294967295"), starlark.Float(2.5))
		d.SetKey(starlark.MakeInt(0), starlark.MakeInt(7))
		return d
	}, "{uint32:double}"},
	{func() starlark.Value {
		d := starlark.NewDict(2)
		d.SetKey(starlark.String("a"), starlark.String("BLUE"))
		d.SetKey(starlark.String("b"), starlark.MakeInt(1))
		return d
	}, "{str:Color}"},
	{func() starlark.Value {
		d := starlark.NewDict(2)
		d.SetKey(starlark.String("a"), starlark.String("TRIANGLE"))
		d.SetKey(starlark.String("b"), starproto.EnumValueDescriptor{Desc: c20shape.Values().ByName("SQUARE")})
		return d
	}, "{str:Shape}"},
	{func() starlark.Value {
		d := starlark.NewDict(2)
		d.SetKey(starlark.String("a"), c20newMsg(c20msg, "f_string", "in-map"))
		return d
	}, "{str:Msg}"},
	{func() starlark.Value {
		d := starlark.NewDict(2)
		d.SetKey(starlark.String("a"), c20newMsg(c20sub, "s", "wrong-type-in-map"))
		return d
	}, "{str:Sub}"},
	{func() starlark.Value {
		d := starlark.NewDict(2)
		d.SetKey(starlark.MakeInt(-5), starlark.Float(0.5))
		d.SetKey(bigv("2147483648"), starlark.Float(1))
		return d
	}, "{int32-overflow:float}"},
	{func() starlark.Value {
		return starlark.NewList([]starlark.Value{c20newMsg(c20msg, "f_string", "m0"), c20newMsg(c20msg, "f_string", "m1")})
	}, "[Msg,Msg]"},
	{func() starlark.Value {
		d := starlark.NewDict(1)
		d.SetKey(starlark.String("s"), starlark.String("only-s"))
		return d
	}, "{s}"},
	{func() starlark.Value {
		d := starlark.NewDict(1)
		d.SetKey(starlark.String("n"), starlark.MakeInt(7))
		return d
	}, "{n}"},
	{func() starlark.Value {
		d := starlark.NewDict(1)
		d.SetKey(starlark.String("r"), starlark.NewList([]starlark.Value{starlark.MakeInt(1), starlark.MakeInt(2)}))
		return d
	}, "{r}"},
	{func() starlark.Value { return starlark.NewDict(0) }, "{}"},
	{func() starlark.Value {
		d := starlark.NewDict(1)
		d.SetKey(starlark.String("a"), starlark.MakeInt(1))
		return d
	}, "{a:1}"},
	{func() starlark.Value { return c20newMsgInt(c20old, "a", 3) }, "Old(a=3)"},
	// content that text formats must quote or escape faithfully
	{func() starlark.Value { return starlark.String("key:  value  #c {x: 1} <y> \"q\" 'r' \\ \n\t[z]: 2;,") }, "tricky-str"},
	{func() starlark.Value { return starlark.Bytes("a:  b\x00\"\n\\ {}: 1  #") }, "tricky-bytes"},
	{func() starlark.Value {
		return starlark.NewList([]starlark.Value{starlark.String("x:  y"), starlark.String(" lead and trail  "), starlark.String("#not a comment: 1")})
	}, "[tricky-strs]"},
	{func() starlark.Value {
		d := starlark.NewDict(2)
		d.SetKey(starlark.String("k:  1"), starlark.String("v:  2"))
		d.SetKey(starlark.String(" "), starlark.String("  "))
		return d
	}, "{tricky-ss}"},
	{func() starlark.Value {
		d := starlark.NewDict(2)
		d.SetKey(starlark.String("s"), starlark.String("ok-first"))
		d.SetKey(starlark.String("n"), starlark.String("ill-typed-second"))
		return d
	}, "{s,bad n}"},
	{func() starlark.Value {
		d := starlark.NewDict(2)
		d.SetKey(starlark.MakeInt(-5), starlark.Float(0.5))
		d.SetKey(bigv("2147483647"), starlark.MakeInt(3))
		return d
	}, "{int32:float}"},
}

var (
	c20goodOnce sync.Once
	c20good     map[string][]int
)

// c20goodFor lists the pool entries a field of the given scalar/enum/message
// kind must store (expectScalar == "store"): element, key and value choices are
// drawn from them most of the time, so that accepted stores — and not only
// rejections — are exercised in every position.
func c20goodFor(kind string) []int {
	c20goodOnce.Do(func() {
		c20descriptors()
		c20good = map[string][]int{}
		for _, k := range []string{"bool", "int32", "uint32", "int64", "uint64", "float", "double", "string", "bytes", "enum", "shape", "msg:Sub", "msg:Msg"} {
			for i, pv := range c20pool {
				v := pv.v()
				ok := expectScalar(k, v) == "store"
				if (k == "float" || k == "double") && !ok {
					_, isF := v.(starlark.Float)
					ok = isF
				}
				if ok {
					c20good[k] = append(c20good[k], i)
				}
			}
		}
	})
	return c20good[kind]
}

// c20valuesFor lists pool indexes that make sense for a field (the
// generator draws from them most of the time so that histories build
// non-trivial content).
func c20valuesFor(field string) []int {
	kind, shape := fieldKind(field)
	byDesc := func(descs ...string) []int {
		var out []int
		for i, v := range c20pool {
			for _, d := range descs {
				if v.desc == d {
					out = append(out, i)
				}
			}
		}
		return out
	}
	switch {
	case field == "sub":
		return byDesc("dict-sub", "{s}", "{n}", "{r}", "{}", "{s,bad n}", "Sub(s=..)")
	case field == "r_sub":
		return byDesc("[sub-dicts]", "[Sub,Sub]", "[Msg,Sub]")
	case field == "m_isub":
		return byDesc("{1:sub-dict}")
	case field == "m_ss":
		return byDesc("{\"k\":\"v\"}", "{tricky-ss}")
	case field == "m_u64":
		return byDesc("{2^64-1:-2^63,5:7}")
	case field == "r_rec":
		return byDesc("[Msg,Msg]", "[Msg,Msg]", "[Msg,Sub]", "Msg(f_string=..)")
	case field == "rec":
		return byDesc("Msg(f_string=..)")
	case field == "old":
		return byDesc("{a:1}", "{}", "Old(a=3)", "{a:1}")
	case field == "m_bb":
		return byDesc("{bool:bytes}")
	case field == "m_i64u32":
		return byDesc("{int64:uint32}")
	case field == "m_u32d":
		return byDesc("{uint32:double}")
	case field == "m_senum":
		return byDesc("{str:Color}", "{str:Shape}")
	case field == "m_sshape":
		return byDesc("{str:Shape}", "{str:Color}")
	case field == "m_srec":
		return byDesc("{str:Msg}", "{str:Sub}")
	case field == "m_i32f":
		return byDesc("{int32:float}", "{int32-overflow:float}", "{uint32:double}")
	case shape == "rep" && kind == "shape":
		return byDesc("[shapes]", "[Color,Shape]", "[enums]")
	case shape == "rep" && kind == "bool":
		return byDesc("(True,False)")
	case shape == "rep" && (kind == "float" || kind == "double"):
		return byDesc("[floats]", "[1,2,3]")
	case shape == "rep" && kind == "uint32":
		return byDesc("[2^32-1,0]", "[2^64-1,0]")
	case shape == "rep" && kind == "int64":
		return byDesc("[int64 extremes]", "[2^64-1,0]")
	case shape == "rep" && kind == "string":
		return byDesc("[\"a\",\"b\"]", "[tricky-strs]")
	case shape == "rep" && kind == "bytes":
		return byDesc("[bytes]")
	case shape == "rep" && kind == "enum":
		return byDesc("[enums]", "[Color,Shape]")
	case shape == "rep":
		return byDesc("[1,2,3]", "[2^64-1,0]")
	}
	return nil
}

// ---------------------------------------------------------------------------
// generator

func (c20) Generate(seed uint64, i int, tier string) *Scenario {
	r := NewRng(mix64(seed, uint64(i)) ^ 0xc20)
	sc := &Scenario{Prop: "C20", Family: "history", Seed: seed, Index: i, N: map[string]int64{}}
	n := r.Range(1, 16)
	theme := 0
	if r.Chance(1, 4) {
		theme = 1
	} else if r.Chance(1, 4) {
		theme = 2
	} else if r.Chance(1, 8) {
		theme = 3
	}
	pickField := func(fs []c20field) string { return fs[r.Intn(len(fs))].name }
	for j := 0; j < n; j++ {
		op := Op{Obj: r.Intn(4), A: int64(r.Intn(4)), B: int64(r.Intn(len(c20pool)))}
		switch m := r.Intn(100); {
		case m < 22:
			op.Op, op.S = "set", pickField(c20scalars)
		case m < 28:
			op.Op, op.S = "set", pickField(c20reps)
		case m < 32:
			op.Op, op.S = "set", pickField(c20maps)
		case m < 36:
			op.Op, op.S = "set", r.Pick([]string{"sub", "rec", "old"})
		case m < 41:
			op.Op, op.S = "setsub", pickField(c20subScalars)
		case m < 45:
			op.Op, op.S = "append", pickField(c20reps)
		case m < 49:
			op.Op, op.S = "setidx", pickField(c20reps)
			op.Args = []int64{int64(r.Range(-1, 2))}
		case m < 53:
			op.Op, op.S = "setkey", pickField(c20maps)
			op.Args = []int64{int64(r.Intn(len(c20pool)))}
		case m < 59:
			op.Op = r.Pick([]string{"alias_sub", "alias_rec", "alias_child"})
		case m < 65:
			op.Op, op.S = "alias_rep", pickField(c20reps)
		case m < 69:
			op.Op, op.S = "alias_map", pickField(c20maps)
		case m < 75:
			op.Op = "copy"
		case m < 81:
			op.Op = "freeze"
		case m < 85:
			op.Op = "viewmut"
		case m < 88:
			op.Op = "mapmsgmut"
		case m < 92:
			op.Op = "roundtrip"
		case m < 94:
			op.Op, op.S = "itermut", pickField(c20reps)
		case m < 95 || (m >= 95 && r.Chance(1, 2)):
			// wrappers obtained now and used later, possibly after a freeze
			if r.Bool() {
				op.Op = "hold"
				op.Args = []int64{int64(r.Intn(2)), int64(r.Intn(len(c20holdRoutes)))}
			} else {
				op.Op = "mutheld"
				op.Args = []int64{int64(r.Intn(2))}
			}
		case m < 96:
			op.Op = "frzarg"
			op.Args = []int64{int64(r.Intn(len(c20frzForms)))}
			if r.Chance(1, 4) {
				op.Op = "foreign"
				op.Args = []int64{int64(r.Intn(5))}
			} else if r.Chance(1, 3) {
				op.Op = r.Pick([]string{"extset", "extset", "extget"})
				op.Args = []int64{int64(r.Intn(4))}
				if g := c20goodFor([]string{"int32", "string", "uint64", "int32"}[op.Args[0]]); r.Chance(1, 2) && len(g) > 0 {
					op.B = int64(g[r.Intn(len(g))])
				}
			} else if r.Chance(1, 4) {
				op.Op = "copywrong"
				op.Args = []int64{int64(r.Intn(5))}
			} else if r.Chance(1, 2) {
				op.Op = "augset"
				op.Args = []int64{int64(r.Intn(5))}
			}
		case m < 97:
			op.Op = "new"
		default:
			op.Op, op.S = r.Pick([]string{"newkw", "newkw", "newdict"}), pickField(c20scalars)
		}
		if theme == 0 && r.Chance(1, 8) {
			// assign whatever another field holds (same or different element type)
			op.Op, op.S = "xset", c20allFields[r.Intn(len(c20allFields))]
			from := r.Intn(len(c20allFields))
			if r.Chance(1, 2) {
				// same shape as the target: repeated into repeated, map into map, scalar into scalar
				_, shape := fieldKind(op.S)
				for tries := 0; tries < 20; tries++ {
					if _, sh := fieldKind(c20allFields[from]); sh == shape {
						break
					}
					from = r.Intn(len(c20allFields))
				}
			}
			op.Args = []int64{int64(from)}
		} else if theme == 0 && r.Chance(1, 25) {
			op.Op, op.S, op.Args = "setf", c20allFields[r.Intn(len(c20allFields))], nil
		}
		if theme == 3 {
			// themed history "extension fields": give a message a proto2
			// sub-message, set / read / unset its extensions, freeze, try again
			op.Obj, op.A = r.Pick3(0, 0, 1), int64(r.Pick3(0, 0, 1))
			switch m := r.Intn(100); {
			case m < 25:
				op.Op, op.S, op.Args = "set", "old", nil
			case m < 65:
				op.Op, op.S = "extset", ""
				op.Args = []int64{int64(r.Intn(4))}
				kinds := []string{"int32", "string", "uint64", "int32"}
				if g := c20goodFor(kinds[op.Args[0]]); r.Chance(2, 3) && len(g) > 0 {
					op.B = int64(g[r.Intn(len(g))])
				} else if r.Chance(1, 3) {
					op.B = 0 // None: unset
				}
			case m < 75:
				op.Op, op.S, op.Args = "extget", "", []int64{int64(r.Intn(4))}
			case m < 88:
				op.Op, op.S, op.Args = "freeze", "", nil
			case m < 94:
				op.Op, op.S, op.Args = "roundtrip", "", nil
			default:
				op.Op, op.S, op.Args = "copy", "", nil
			}
		}
		if theme == 2 {
			// themed history "containers of every element type, assigned across
			// fields": fill repeated and map fields with well-typed content, then
			// assign one field's view to another field of the same shape (same or
			// different element type), read, round-trip
			op.Obj, op.A = r.Pick3(0, 0, 1), int64(r.Pick3(0, 1, 1))
			containers := append(append([]c20field{}, c20reps...), c20maps...)
			switch m := r.Intn(100); {
			case m < 45:
				op.Op, op.S, op.Args = "set", pickField(containers), nil
				op.Obj = int(op.A) // fill the source message
			case m < 85:
				op.Op, op.S = "xset", pickField(containers)
				_, shape := fieldKind(op.S)
				from := r.Intn(len(c20allFields))
				for tries := 0; tries < 40; tries++ {
					if _, sh := fieldKind(c20allFields[from]); sh == shape {
						break
					}
					from = r.Intn(len(c20allFields))
				}
				op.Args = []int64{int64(from)}
			case m < 88:
				op.Op, op.S, op.Args = "append", pickField(c20reps), nil
				op.Obj = int(op.A)
			case m < 91:
				op.Op, op.S, op.Args = "setidx", pickField(c20reps), []int64{int64(r.Range(0, 1))}
				op.Obj = int(op.A)
			case m < 95:
				op.Op, op.S, op.Args = "setkey", pickField(c20maps), []int64{int64(r.Intn(len(c20pool)))}
				op.Obj = int(op.A)
			case m < 97:
				op.Op, op.S, op.Args = "roundtrip", "", nil
			default:
				op.Op, op.S, op.Args = "freeze", "", nil
			}
		}
		if theme == 1 {
			// themed history "wrappers held across a freeze": populate message-
			// valued fields, take wrappers by every route, freeze, use them
			op.Obj, op.A = r.Pick3(0, 0, 1), int64(r.Pick3(0, 0, 1))
			switch m := r.Intn(100); {
			case m < 30:
				op.Op, op.S, op.Args = "set", r.Pick([]string{"r_sub", "m_isub", "sub", "r_int32", "m_ss", "r_sub", "r_rec", "m_srec"}), nil
			case m < 55:
				op.Op, op.S = "hold", ""
				op.Args = []int64{int64(r.Intn(2)), int64(r.Intn(len(c20holdRoutes)))}
			case m < 72:
				op.Op, op.S, op.Args = "freeze", "", nil
			case m < 95:
				op.Op, op.S = "mutheld", ""
				op.Args = []int64{int64(r.Intn(2))}
			default:
				op.Op, op.S, op.Args = "roundtrip", "", nil
			}
		}
		switch op.Op {
		case "append", "setidx":
			if k, _ := fieldKind(op.S); r.Chance(2, 3) {
				if g := c20goodFor(k); len(g) > 0 {
					op.B = int64(g[r.Intn(len(g))])
				}
			}
		case "setkey":
			if k, _ := fieldKind(op.S); r.Chance(2, 3) {
				kk, vk, _ := strings.Cut(k, ":")
				if g := c20goodFor(kk); len(g) > 0 {
					op.Args = []int64{int64(g[r.Intn(len(g))])}
				}
				if g := c20goodFor(vk); len(g) > 0 {
					op.B = int64(g[r.Intn(len(g))])
				}
			}
		}
		if vs := c20valuesFor(op.S); len(vs) > 0 && (op.Op == "set" || op.Op == "setf" || op.Op == "newkw" || op.Op == "newdict") && (r.Chance(3, 4) || theme >= 1) {
			op.B = int64(vs[r.Intn(len(vs))])
		}
		if (op.Op == "alias_rec") && int(op.A) == op.Obj && !r.Chance(1, 40) {
			op.A = int64((op.Obj + 1) % 4) // a message containing itself kills marshal: keep it rare
		}
		sc.Ops = append(sc.Ops, op)
	}
	return sc
}

// c20holdRoutes: ways of obtaining a wrapper (view, element, sub-message) that
// the history keeps and mutates through later.
var c20holdRoutes = []string{
	"R = [e for e in A.r_sub]\n",
	"R = A.r_sub[0]\n",
	"R = A.r_sub\n",
	"R = A.sub\n",
	"R = A.m_isub[1]\n",
	"R = A.m_isub\n",
	"R = A.r_int32\n",
	"R = list(A.r_sub)\n",
	"R = sorted(A.r_sub, key=lambda e: e.n)\n",
	"R = [A.m_isub[k] for k in A.m_isub]\n",
	"R = A.sub.child\n",
	"R = A.rec\n",
	"R = A.m_ss\n",
	"R = A.r_int32.append\n", // a method bound before the freeze
	"R = A.r_sub.append\n",
	"R = A.r_rec\n",
	"R = A.m_srec\n",
	"R = [A.m_srec[k] for k in A.m_srec]\n",
}

// c20frzForms: operations whose argument expression freezes the target (frz is a
// host built-in that freezes its first argument and returns its second): the
// message is frozen by the time the store executes, so it must not change.
var c20frzForms = []string{
	"A.r_int32.append(frz(A, 5))",
	"A.r_int32[0] = frz(A, 6)",
	"A.f_int32 = frz(A, 7)",
	"A.m_ss[\"k\"] = frz(A, \"v\")",
	"A.m_ss[frz(A, \"k2\")] = \"v\"",
	"A.r_sub.append(frz(A, {\"s\": \"late\"}))",
	"proto.set_field(A, Msg.f_int32, frz(A, 8))",
	"A.sub.s = frz(A, \"late\")",
	"A.r_sub[0].s = frz(A, \"late\")",
	"A.r_string = [frz(A, \"late\")]",
	"A.m_isub[1].s = frz(A, \"late\")",
}

// ---------------------------------------------------------------------------
// execution

var (
	c20progMu sync.Mutex
	c20progs  = map[string]*starlark.Program{}
)

type c20run struct {
	sc                 *Scenario
	th                 *starlark.Thread
	vars               [4]*starproto.Message
	frozen             [4]bool
	snaps              map[int][]byte // var index -> encoding at freeze time
	res                *Result
	opIdx              int
	env                starlark.StringDict
	accepted, rejected int
	held               [2]starlark.Value
	heldOwner          [2]*starproto.Message
	heldHad            [2]bool // the held wrapper wrapped present (not default) storage
	frozenMsg          map[*starproto.Message]bool
}

func (x *c20run) star(src string, env starlark.StringDict) (v starlark.Value, err error, pv any) {
	c20progMu.Lock()
	pg := c20progs[src]
	if pg == nil {
		names := map[string]bool{"A": true, "B": true, "V": true, "K": true, "I": true, "Msg": true, "Sub": true, "Color": true, "Shape": true, "proto": true, "frz": true, "EXT": true, "Old": true}
		_, p, cerr := starlark.SourceProgramOptions(allOn.FileOptions(), "op", src, func(n string) bool { return names[n] })
		if cerr != nil {
			c20progMu.Unlock()
			return nil, fmt.Errorf("template error: %v in %q", cerr, src), nil
		}
		pg = p
		c20progs[src] = pg
	}
	c20progMu.Unlock()
	x.th.Uncancel()
	x.th.SetMaxExecutionSteps(x.th.ExecutionSteps() + 4000)
	pv = safeRun(func() {
		var g starlark.StringDict
		g, err = pg.Init(x.th, env)
		if err == nil {
			v = g["R"]
		}
	})
	return
}

func (x *c20run) fail(class, format string, args ...any) {
	op := x.sc.Ops[x.opIdx]
	x.res.Violate(class, "op %d %s(target=v%d source=v%d field=%q value=%s): %s", x.opIdx, op.Op, op.Obj, op.A, op.S, c20pool[int(op.B)%len(c20pool)].desc, fmt.Sprintf(format, args...))
}

func detEnc(m *starproto.Message) []byte {
	b, err := proto.MarshalOptions{Deterministic: true}.Marshal(m.Message())
	if err != nil {
		return []byte("marshal-error:" + err.Error())
	}
	return b
}

// hasCycle reports whether a message reaches itself (marshal would not end).
func hasCycle(m protoreflect.Message, path map[protoreflect.Message]bool) bool {
	if path[m] {
		return true
	}
	path[m] = true
	defer delete(path, m)
	cyc := false
	m.Range(func(fd protoreflect.FieldDescriptor, v protoreflect.Value) bool {
		switch {
		case fd.IsList() && fd.Message() != nil:
			l := v.List()
			for i := 0; i < l.Len(); i++ {
				if hasCycle(l.Get(i).Message(), path) {
					cyc = true
				}
			}
		case fd.IsMap() && fd.MapValue().Message() != nil:
			v.Map().Range(func(_ protoreflect.MapKey, mv protoreflect.Value) bool {
				if hasCycle(mv.Message(), path) {
					cyc = true
				}
				return true
			})
		case fd.Message() != nil && !fd.IsMap() && !fd.IsList():
			if hasCycle(v.Message(), path) {
				cyc = true
			}
		}
		return !cyc
	})
	return cyc
}

// typeWalk: every field holds only values of its declared kind.
func typeWalk(m protoreflect.Message, seen map[protoreflect.Message]bool) string {
	if seen[m] {
		return ""
	}
	seen[m] = true
	bad := ""
	check := func(fd protoreflect.FieldDescriptor, v protoreflect.Value) string {
		ok := false
		switch fd.Kind() {
		case protoreflect.BoolKind:
			_, ok = v.Interface().(bool)
		case protoreflect.Int32Kind, protoreflect.Sint32Kind, protoreflect.Sfixed32Kind:
			_, ok = v.Interface().(int32)
		case protoreflect.Uint32Kind, protoreflect.Fixed32Kind:
			_, ok = v.Interface().(uint32)
		case protoreflect.Int64Kind, protoreflect.Sint64Kind, protoreflect.Sfixed64Kind:
			_, ok = v.Interface().(int64)
		case protoreflect.Uint64Kind, protoreflect.Fixed64Kind:
			_, ok = v.Interface().(uint64)
		case protoreflect.FloatKind:
			_, ok = v.Interface().(float32)
		case protoreflect.DoubleKind:
			_, ok = v.Interface().(float64)
		case protoreflect.StringKind:
			_, ok = v.Interface().(string)
		case protoreflect.BytesKind:
			_, ok = v.Interface().([]byte)
		case protoreflect.EnumKind:
			var n protoreflect.EnumNumber
			n, ok = v.Interface().(protoreflect.EnumNumber)
			if ok && fd.Enum().Values().ByNumber(n) == nil {
				return fmt.Sprintf("field %s holds undefined enum number %d", fd.Name(), n)
			}
		case protoreflect.MessageKind, protoreflect.GroupKind:
			var mm protoreflect.Message
			mm, ok = v.Interface().(protoreflect.Message)
			if ok {
				if mm.Descriptor() != fd.Message() {
					return fmt.Sprintf("field %s holds a %s message", fd.Name(), mm.Descriptor().FullName())
				}
				return typeWalk(mm, seen)
			}
		}
		if !ok {
			return fmt.Sprintf("field %s (%s) holds a Go %T", fd.Name(), fd.Kind(), v.Interface())
		}
		return ""
	}
	m.Range(func(fd protoreflect.FieldDescriptor, v protoreflect.Value) bool {
		switch {
		case fd.IsList():
			l := v.List()
			for i := 0; i < l.Len() && bad == ""; i++ {
				bad = check(fd, l.Get(i))
			}
		case fd.IsMap():
			v.Map().Range(func(k protoreflect.MapKey, mv protoreflect.Value) bool {
				bad = check(fd.MapKey(), k.Value())
				if bad == "" {
					bad = check(fd.MapValue(), mv)
				}
				return bad == ""
			})
		default:
			bad = check(fd, v)
		}
		return bad == ""
	})
	return bad
}

func intInRange(v starlark.Value, lo, hi string) (isInt, in bool) {
	i, ok := v.(starlark.Int)
	if !ok {
		return false, false
	}
	b := i.BigInt()
	l, _ := new(big.Int).SetString(lo, 10)
	h, _ := new(big.Int).SetString(hi, 10)
	return true, b.Cmp(l) >= 0 && b.Cmp(h) <= 0
}

// expectScalar: what the property demands for assigning v to a field of the
// given kind: "store" (must succeed... or fail, but if it succeeds the value
// reads back exactly), "fail" (must be rejected), "either".
func expectScalar(kind string, v starlark.Value) string {
	ranges := map[string][2]string{
		"int32": {"-2147483648", "2147483647"}, "uint32": {"0", "4294967295"},
		"int64": {"-9223372036854775808", "9223372036854775807"}, "uint64": {"0", "18446744073709551615"},
	}
	switch kind {
	case "bool":
		if _, ok := v.(starlark.Bool); ok {
			return "store"
		}
		return "fail"
	case "int32", "uint32", "int64", "uint64":
		isInt, in := intInRange(v, ranges[kind][0], ranges[kind][1])
		if isInt && in {
			return "store"
		}
		return "fail"
	case "float":
		switch v.(type) {
		case starlark.Float, starlark.Int:
			return "either"
		}
		return "fail"
	case "double":
		switch v.(type) {
		case starlark.Float:
			return "store"
		case starlark.Int:
			return "either"
		}
		return "fail"
	case "string":
		switch v.(type) {
		case starlark.String:
			return "store"
		case starlark.Bytes:
			return "either"
		}
		return "fail"
	case "bytes":
		switch v.(type) {
		case starlark.Bytes:
			return "store"
		case starlark.String:
			return "either"
		}
		return "fail"
	case "enum", "shape":
		ed := c20color
		if kind == "shape" {
			ed = c20shape
		}
		switch e := v.(type) {
		case starproto.EnumValueDescriptor:
			if e.Desc.Parent() == ed {
				return "store"
			}
			return "fail" // a value of another enum type is not of the field's type
		case starlark.Int:
			n, err := starlark.AsInt32(e)
			if err != nil {
				return "fail" // not even an int32: outside the range of every enum
			}
			if ed.Values().ByNumber(protoreflect.EnumNumber(n)) != nil {
				return "store"
			}
			return "either"
		case starlark.String:
			if ed.Values().ByName(protoreflect.Name(string(e))) != nil {
				return "store"
			}
			return "fail"
		}
		return "fail"
	case "msg:Sub", "msg:Msg", "msg:Old":
		md := c20sub
		if kind == "msg:Msg" {
			md = c20msg
		} else if kind == "msg:Old" {
			md = c20old
		}
		switch m := v.(type) {
		case *starproto.Message:
			if m.Message().ProtoReflect().Descriptor() == md {
				return "store"
			}
			return "fail" // a message of another type
		case *starlark.Dict:
			return "either" // field-by-field construction: depends on the entries
		}
		return "fail"
	}
	return "either"
}

// sameScalar compares a value read back from a field with the value written.
func sameScalar(kind string, got, want starlark.Value) bool {
	switch kind {
	case "msg:Sub", "msg:Msg", "msg:Old":
		g, ok := got.(*starproto.Message)
		w, ok2 := want.(*starproto.Message)
		if wd, isDict := want.(*starlark.Dict); isDict {
			// built from a dict: the field must hold exactly the message the
			// constructor builds from that dict (nothing kept from what the
			// field held before)
			md := c20sub
			if kind == "msg:Msg" {
				md = c20msg
			} else if kind == "msg:Old" {
				md = c20old
			}
			fresh, err := starlark.Call(&starlark.Thread{Name: "expect"}, starproto.MessageDescriptor{Desc: md}, starlark.Tuple{wd}, nil)
			if err != nil {
				return true // the constructor refuses this dict: nothing to compare with
			}
			w, ok2 = fresh.(*starproto.Message), true
		}
		if !ok2 {
			return true
		}
		if !ok {
			return false
		}
		if hasCycle(g.Message().ProtoReflect(), map[protoreflect.Message]bool{}) || hasCycle(w.Message().ProtoReflect(), map[protoreflect.Message]bool{}) {
			return true // a self-containing message cannot be encoded (reported by afterOp as cyclic-message)
		}
		return bytes.Equal(detEnc(g), detEnc(w))
	case "enum", "shape":
		g, ok := got.(starproto.EnumValueDescriptor)
		if !ok || g.Desc == nil {
			return false
		}
		switch w := want.(type) {
		case starproto.EnumValueDescriptor:
			return g.Desc.Number() == w.Desc.Number()
		case starlark.Int:
			n, err := starlark.AsInt32(w)
			return err == nil && int(g.Desc.Number()) == n
		case starlark.String:
			return string(g.Desc.Name()) == string(w)
		}
		return false
	case "string":
		if b, ok := want.(starlark.Bytes); ok {
			g, ok := got.(starlark.String)
			return ok && string(g) == string(b)
		}
	case "bytes":
		if s, ok := want.(starlark.String); ok {
			g, ok := got.(starlark.Bytes)
			return ok && string(g) == string(s)
		}
	}
	eq, err := starlark.Equal(got, want)
	return err == nil && eq && got.Type() == want.Type()
}

func fieldKind(name string) (kind string, shape string) {
	for _, f := range c20scalars {
		if f.name == name {
			return f.kind, "scalar"
		}
	}
	for _, f := range c20reps {
		if f.name == name {
			return f.kind, "rep"
		}
	}
	for _, f := range c20maps {
		if f.name == name {
			return f.kind, "map"
		}
	}
	for _, f := range c20subScalars {
		if f.name == name {
			return f.kind, "scalar"
		}
	}
	if name == "sub" {
		return "msg:Sub", "msg"
	}
	if name == "rec" {
		return "msg:Msg", "msg"
	}
	if name == "old" {
		return "msg:Old", "msg"
	}
	return "", ""
}

func (p c20) Run(sc *Scenario) *Result {
	c20descriptors()
	res := NewResult()
	x := &c20run{sc: sc, res: res, snaps: map[int][]byte{}, frozenMsg: map[*starproto.Message]bool{}}
	x.th = &starlark.Thread{Name: "c20"}
	x.env = starlark.StringDict{
		"Msg": starproto.MessageDescriptor{Desc: c20msg}, "Sub": starproto.MessageDescriptor{Desc: c20sub},
		"Color": starproto.EnumDescriptor{Desc: c20color}, "Shape": starproto.EnumDescriptor{Desc: c20shape}, "proto": starproto.Module,
		"Old": starproto.MessageDescriptor{Desc: c20old},
	}
	x.env["frz"] = starlark.NewBuiltin("frz", func(_ *starlark.Thread, _ *starlark.Builtin, args starlark.Tuple, _ []starlark.Tuple) (starlark.Value, error) {
		if len(args) != 2 {
			return nil, fmt.Errorf("frz: want (message, value)")
		}
		args[0].Freeze()
		if m, ok := args[0].(*starproto.Message); ok {
			x.frozenMsg[m] = true
			for i, v := range x.vars {
				if v == m && !x.frozen[i] {
					x.frozen[i] = true
					x.snaps[i] = detEnc(m) // content at the instant of the freeze
				}
			}
		}
		return args[1], nil
	})
	for i := range x.vars {
		v, _, _ := x.star("R = Msg()\n", x.env)
		m, ok := v.(*starproto.Message)
		if !ok {
			res.Violate("harness-panic", "cannot construct Msg()")
			return res
		}
		x.vars[i] = m
	}
	res.Sig = hashStr(fmt.Sprint(sc.Ops))
	res.Evals = 1
	frozenEver := false
	for i, op := range sc.Ops {
		x.opIdx = i
		op.Obj = ((op.Obj % 4) + 4) % 4
		op.A = ((op.A % 4) + 4) % 4
		op.B = ((op.B % int64(len(c20pool))) + int64(len(c20pool))) % int64(len(c20pool))
		x.guarded(func() { x.apply(op) })
		if x.fatal() {
			break
		}
		if len(x.snaps) > 0 {
			frozenEver = true
		}
		x.guarded(x.afterOp)
		if x.fatal() {
			break
		}
	}
	if !x.fatal() {
		for _, m := range x.vars {
			res.Mix(string(detEnc(m)))
		}
	}
	if (x.accepted > 0 && x.rejected > 0) || frozenEver {
		res.Nontrivial = true
	}
	res.Count("assignments_accepted", int64(x.accepted))
	res.Count("assignments_rejected", int64(x.rejected))
	return res
}

// guarded runs a step of the history; a Go panic that comes out of lib/proto (or
// protobuf underneath it) while the harness uses its public Go API — String,
// Attr, Index, Len, Get, Iterate on messages and views — is a host panic, which
// the property rules out. Any other panic is the harness's own and propagates.
func (x *c20run) guarded(f func()) {
	defer func() {
		if r := recover(); r != nil {
			st := string(debug.Stack())
			if strings.Contains(st, "go.starlark.net/lib/proto.") || strings.Contains(st, "google.golang.org/protobuf/") {
				x.fail("host-panic", "Go panic inside lib/proto reached through its Go API: %v", r)
				return
			}
			panic(r)
		}
	}()
	f()
}

// fatal: a violation after which the history cannot usefully continue. A
// changed frozen message does not stop it (its snapshot is re-taken), so the
// rest of the history still gets explored.
func (x *c20run) fatal() bool {
	for _, v := range x.res.Violations {
		if v.Class != "frozen-message-changed" {
			return true
		}
	}
	return false
}

// pvEqual compares a Starlark value read through lib/proto with the underlying
// protoreflect value, converted independently here.
func pvEqual(fd protoreflect.FieldDescriptor, got starlark.Value, pv protoreflect.Value) bool {
	switch fd.Kind() {
	case protoreflect.BoolKind:
		b, ok := got.(starlark.Bool)
		return ok && bool(b) == pv.Bool()
	case protoreflect.Int32Kind, protoreflect.Sint32Kind, protoreflect.Sfixed32Kind, protoreflect.Int64Kind, protoreflect.Sint64Kind, protoreflect.Sfixed64Kind:
		i, ok := got.(starlark.Int)
		if !ok {
			return false
		}
		v, ok := i.Int64()
		return ok && v == pv.Int()
	case protoreflect.Uint32Kind, protoreflect.Fixed32Kind, protoreflect.Uint64Kind, protoreflect.Fixed64Kind:
		i, ok := got.(starlark.Int)
		if !ok {
			return false
		}
		v, ok := i.Uint64()
		return ok && v == pv.Uint()
	case protoreflect.FloatKind, protoreflect.DoubleKind:
		f, ok := got.(starlark.Float)
		return ok && (float64(f) == pv.Float() || (float64(f) != float64(f) && pv.Float() != pv.Float()))
	case protoreflect.StringKind:
		x, ok := got.(starlark.String)
		return ok && string(x) == pv.String()
	case protoreflect.BytesKind:
		x, ok := got.(starlark.Bytes)
		return ok && string(x) == string(pv.Bytes())
	case protoreflect.EnumKind:
		e, ok := got.(starproto.EnumValueDescriptor)
		return ok && e.Desc != nil && e.Desc.Number() == pv.Enum() && e.Desc.Parent() == fd.Enum()
	case protoreflect.MessageKind, protoreflect.GroupKind:
		m, ok := got.(*starproto.Message)
		return ok && m.Message().ProtoReflect() == pv.Message()
	}
	return false
}

// viewsAgree: every route by which Starlark reads a message's content — field
// access, Index / iteration / Len of repeated views, Get / Items / iteration /
// Len of map views — yields exactly what the message holds.
func viewsAgree(m *starproto.Message) string {
	pm := m.Message().ProtoReflect()
	bad := ""
	pm.Range(func(fd protoreflect.FieldDescriptor, pv protoreflect.Value) bool {
		name := string(fd.Name())
		got, err := m.Attr(name)
		if err != nil || got == nil {
			bad = fmt.Sprintf("field %s cannot be read: %v", name, err)
			return false
		}
		switch {
		case fd.IsList():
			rf, ok := got.(*starproto.RepeatedField)
			l := pv.List()
			if !ok || rf.Len() != l.Len() {
				bad = fmt.Sprintf("repeated %s: view has length %v, the message holds %d", name, got, l.Len())
				return false
			}
			it := rf.Iterate()
			var e starlark.Value
			i := 0
			for ; it.Next(&e); i++ {
				if i >= l.Len() || !pvEqual(fd, e, l.Get(i)) || !pvEqual(fd, rf.Index(i), l.Get(i)) {
					bad = fmt.Sprintf("repeated %s: element %d reads as %v / %v, the message holds %v", name, i, e, rf.Index(i), l.Get(i))
					break
				}
			}
			it.Done()
			if bad == "" && i != l.Len() {
				bad = fmt.Sprintf("repeated %s: iteration yields %d elements of %d", name, i, l.Len())
			}
		case fd.IsMap():
			mf, ok := got.(*starproto.MapField)
			mp := pv.Map()
			if !ok || mf.Len() != mp.Len() {
				bad = fmt.Sprintf("map %s: view has length %v, the message holds %d", name, got, mp.Len())
				return false
			}
			items := mf.Items()
			if len(items) != mp.Len() {
				bad = fmt.Sprintf("map %s: Items() yields %d entries of %d", name, len(items), mp.Len())
				return false
			}
			it := mf.Iterate()
			var k starlark.Value
			n := 0
			for ; it.Next(&k); n++ {
				if n >= len(items) {
					break
				}
				if eq, err := starlark.Equal(k, items[n][0]); err != nil || !eq {
					bad = fmt.Sprintf("map %s: iteration yields key %v where Items() has %v", name, k, items[n][0])
					break
				}
			}
			it.Done()
			if bad == "" && n != mp.Len() {
				bad = fmt.Sprintf("map %s: iteration yields %d keys of %d", name, n, mp.Len())
			}
			matched := 0
			mp.Range(func(mk protoreflect.MapKey, mv protoreflect.Value) bool {
				for _, kv := range items {
					if pvEqual(fd.MapKey(), kv[0], mk.Value()) {
						matched++
						if !pvEqual(fd.MapValue(), kv[1], mv) {
							bad = fmt.Sprintf("map %s: Items() gives %v for key %v, the message holds %v", name, kv[1], kv[0], mv)
						}
						if g, found, err := mf.Get(kv[0]); err != nil || !found || !pvEqual(fd.MapValue(), g, mv) {
							bad = fmt.Sprintf("map %s: Get(%v) = %v found=%v err=%v, the message holds %v", name, kv[0], g, found, err, mv)
						}
						break
					}
				}
				return bad == ""
			})
			if bad == "" && matched != mp.Len() {
				bad = fmt.Sprintf("map %s: %d of its %d keys do not appear in Items() (keys read as %v)", name, mp.Len()-matched, mp.Len(), items)
			}
		default:
			if !pvEqual(fd, got, pv) {
				bad = fmt.Sprintf("field %s reads as %v, the message holds %v", name, got, pv)
			}
		}
		return bad == ""
	})
	return bad
}

// unsetDefaults: a field the message does not hold reads as the empty / zero
// value of its declared kind (an empty repeated or map view, 0, "", b"", False,
// the enum's zero value, an empty sub-message).
func unsetDefaults(m *starproto.Message) string {
	pm := m.Message().ProtoReflect()
	fds := pm.Descriptor().Fields()
	for i := 0; i < fds.Len(); i++ {
		fd := fds.Get(i)
		if pm.Has(fd) {
			continue
		}
		got, err := m.Attr(string(fd.Name()))
		if err != nil || got == nil {
			return fmt.Sprintf("unset field %s cannot be read: %v", fd.Name(), err)
		}
		ok := false
		switch {
		case fd.IsList():
			rf, isrf := got.(*starproto.RepeatedField)
			ok = isrf && rf.Len() == 0
		case fd.IsMap():
			mf, ismf := got.(*starproto.MapField)
			ok = ismf && mf.Len() == 0
		case fd.Message() != nil:
			mm, ism := got.(*starproto.Message)
			ok = ism && mm.Message().ProtoReflect().Descriptor() == fd.Message()
		default:
			ok = pvEqual(fd, got, fd.Default())
		}
		if !ok {
			return fmt.Sprintf("unset field %s (%s) reads as %s %v", fd.Name(), fd.Kind(), got.Type(), got)
		}
	}
	return ""
}

// afterOp: clause (2) type validity of every live message, clause (4) frozen
// encodings unchanged.
func (x *c20run) afterOp() {
	for i, m := range x.vars {
		if hasCycle(m.Message().ProtoReflect(), map[protoreflect.Message]bool{}) {
			x.res.Count("probe_cyclic_message_built", 1)
			if x.sc.Knob("demonstrate", 0) == 1 {
				_ = m.String() // the consequence: unbounded recursion kills the process
			}
			x.fail("cyclic-message", "message v%d now contains itself: str(), print and proto.marshal of it recurse until the Go stack is exhausted and the host process dies", i)
			return
		}
		if bad := typeWalk(m.Message().ProtoReflect(), map[protoreflect.Message]bool{}); bad != "" {
			x.fail("ill-typed-field", "after the op, v%d: %s", i, bad)
			return
		}
		if bad := viewsAgree(m); bad != "" {
			x.fail("read-back-differs", "v%d: %s", i, bad)
			return
		}
		if x.opIdx%3 == 0 {
			if bad := unsetDefaults(m); bad != "" {
				x.fail("read-back-differs", "v%d: %s", i, bad)
				return
			}
		}
	}
	idx := make([]int, 0, len(x.snaps))
	for k := range x.snaps {
		idx = append(idx, k)
	}
	sort.Ints(idx)
	for _, k := range idx {
		if now := detEnc(x.vars[k]); !bytes.Equal(now, x.snaps[k]) {
			x.fail("frozen-message-changed", "frozen message v%d changed: was %q, now %q", k, x.snaps[k], now)
			x.snaps[k] = now
			return
		}
	}
}

func (x *c20run) apply(op Op) {
	nviol := len(x.res.Violations)
	A, B := x.vars[op.Obj], x.vars[op.A]
	V := c20pool[op.B].v()
	env := starlark.StringDict{"A": A, "B": B, "V": V, "Msg": x.env["Msg"], "Sub": x.env["Sub"], "Color": x.env["Color"], "Shape": x.env["Shape"], "proto": x.env["proto"], "frz": x.env["frz"], "Old": x.env["Old"], "EXT": starlark.None}
	targetFrozen := x.frozen[op.Obj]
	run := func(src string) (starlark.Value, error) {
		v, err, pv := x.star(src, env)
		if pv != nil {
			x.fail("host-panic", "Go panic: %v", pv)
			return nil, fmt.Errorf("panic")
		}
		return v, err
	}
	mustFailFrozen := func(err error, what string) bool {
		if targetFrozen && err == nil {
			x.fail("mutation-of-frozen-message-succeeded", "%s on frozen v%d returned no error", what, op.Obj)
			return true
		}
		return false
	}
	switch op.Op {
	case "new":
		if v, err := run("R = Msg()\n"); err == nil {
			x.vars[op.Obj] = v.(*starproto.Message)
			x.frozen[op.Obj] = false
			delete(x.snaps, op.Obj)
		}
	case "newkw", "newdict":
		kind, _ := fieldKind(op.S)
		ctor := fmt.Sprintf("R = Msg(%s=V)\n", op.S)
		if op.Op == "newdict" {
			ctor = fmt.Sprintf("R = Msg({%q: V})\n", op.S)
		}
		v, err := run(ctor)
		if len(x.res.Violations) > nviol {
			return
		}
		x.judgeScalar(kind, V, err, func() starlark.Value {
			m := v.(*starproto.Message)
			r, _ := m.Attr(op.S)
			return r
		})
		if err == nil {
			x.vars[op.Obj] = v.(*starproto.Message)
			x.frozen[op.Obj] = false
			delete(x.snaps, op.Obj)
		}
	case "copywrong":
		// constructing a message from a message of another type is refused
		forms := []string{"R = Msg(B.sub)\n", "R = Sub(B)\n", "R = Msg(B.r_sub)\n", "R = Msg([B])\n", "R = Sub({\"s\": \"x\"}, n=1)\n"}
		v, err := run(forms[int(op.Args[0])%len(forms)])
		if len(x.res.Violations) > nviol {
			return
		}
		if err == nil {
			x.fail("invalid-value-accepted", "%s returned %v", strings.TrimSpace(forms[int(op.Args[0])%len(forms)]), v)
		}
	case "augset":
		// augmented assignment to a field: read, combine, store
		forms := []struct{ field, op, operand string }{
			{"f_int32", "+", "1"}, {"f_uint64", "+", "1"}, {"f_string", "+", "\"x\""}, {"f_int64", "-", "1"}, {"f_double", "+", "0.5"},
		}
		f := forms[int(op.Args[0])%len(forms)]
		stmt := fmt.Sprintf("A.%s %s= %s", f.field, f.op, f.operand)
		before, _, _ := x.star("R = A."+f.field+"\n", env)
		_, err := run("def op():\n    " + stmt + "\nop()\nR = None\n")
		if len(x.res.Violations) > nviol || mustFailFrozen(err, stmt) {
			return
		}
		if targetFrozen || before == nil {
			return
		}
		env["V"] = before
		want, werr, _ := x.star("R = V "+f.op+" "+f.operand+"\n", env)
		got, _, _ := x.star("R = A."+f.field+"\n", env)
		if err != nil {
			// e.g. int32 overflow: must then be unchanged
			if eq, _ := starlark.Equal(got, before); !eq {
				x.fail("lossy-assignment", "%s failed (%v) yet the field went %v -> %v", stmt, err, before, got)
			}
			return
		}
		if werr == nil && want != nil && got != nil {
			if eq, _ := starlark.Equal(got, want); !eq {
				x.fail("lossy-assignment", "%s: field was %v, now reads %v, expected %v", stmt, before, got, want)
			}
		}
	case "copy":
		if v, err := run("R = Msg(B)\n"); err != nil {
			if len(x.res.Violations) == nviol {
				x.fail("valid-value-rejected", "Msg(m) of a message of the same type: %v", err)
			}
		} else {
			if !bytes.Equal(detEnc(v.(*starproto.Message)), detEnc(B)) {
				x.fail("copy-differs", "Msg(m) does not equal m")
			}
			x.vars[op.Obj] = v.(*starproto.Message)
			x.frozen[op.Obj] = false
			delete(x.snaps, op.Obj)
		}
	case "freeze":
		A.Freeze()
		x.frozen[op.Obj] = true
		x.frozenMsg[A] = true
		x.snaps[op.Obj] = detEnc(A)
	case "hold":
		slot, route := int(op.Args[0])%2, int(op.Args[1])%len(c20holdRoutes)
		if v, err := run(c20holdRoutes[route]); err == nil && v != nil {
			x.held[slot], x.heldOwner[slot] = v, A
			// default (absent) sub-messages and views are frozen empties by design
			fieldOf := map[int]string{0: "r_sub", 1: "r_sub", 2: "r_sub", 3: "sub", 4: "m_isub", 5: "m_isub", 6: "r_int32", 7: "r_sub", 8: "r_sub", 9: "m_isub", 10: "sub", 11: "rec", 12: "m_ss", 13: "r_int32", 14: "r_sub", 15: "r_rec", 16: "m_srec", 17: "m_srec"}[route]
			x.heldHad[slot] = A.Message().ProtoReflect().Has(c20msg.Fields().ByName(protoreflect.Name(fieldOf)))
			if route == 10 {
				s := A.Message().ProtoReflect().Get(c20msg.Fields().ByName("sub")).Message()
				x.heldHad[slot] = x.heldHad[slot] && s.Has(c20sub.Fields().ByName("child"))
			}
		}
	case "mutheld":
		slot := int(op.Args[0]) % 2
		h := x.held[slot]
		if h == nil {
			return
		}
		env["A"] = h
		var src string
		switch hv := h.(type) {
		case *starproto.Message:
			if hv.Message().ProtoReflect().Descriptor() == c20sub {
				src = "def op():\n    A.s = \"through-held-wrapper\"\nop()\nR = None\n"
			} else {
				src = "def op():\n    A.f_int32 = 77\nop()\nR = None\n"
			}
		case *starproto.RepeatedField:
			if hv.Len() > 0 && strings.Contains(hv.Type(), "Msg") {
				src = "def op():\n    A[0].f_int32 = 79\nop()\nR = None\n"
			} else if hv.Len() > 0 && strings.Contains(hv.Type(), "Sub") {
				src = "def op():\n    A[0].s = \"through-held-view\"\nop()\nR = None\n"
			} else if strings.Contains(hv.Type(), "int32") {
				src = "def op():\n    A.append(5)\nop()\nR = None\n"
			}
		case *starproto.MapField:
			if strings.Contains(hv.Type(), "string, string") {
				src = "def op():\n    A[\"held\"] = \"v\"\nop()\nR = None\n"
			} else if strings.Contains(hv.Type(), "Msg") {
				if hv.Len() > 0 {
					src = "def op():\n    for k in A:\n        A[k].f_int32 = 80\nop()\nR = None\n"
				}
			} else if hv.Len() > 0 {
				src = "def op():\n    A[1].s = \"through-held-map\"\nop()\nR = None\n"
			}
		case *starlark.List:
			if hv.Len() > 0 {
				if m, ok := hv.Index(0).(*starproto.Message); ok && m.Message().ProtoReflect().Descriptor() == c20msg {
					src = "def op():\n    A[0].f_int32 = 78\nop()\nR = None\n"
				} else {
					src = "def op():\n    A[0].s = \"through-held-element\"\nop()\nR = None\n"
				}
			}
		case *starlark.Builtin:
			if rf, ok := hv.Receiver().(*starproto.RepeatedField); ok {
				if strings.Contains(rf.Type(), "int32") {
					src = "def op():\n    A(5)\nop()\nR = None\n"
				} else {
					src = "def op():\n    A({\"s\": \"through-bound-method\"})\nop()\nR = None\n"
				}
			}
		}
		if src == "" {
			return
		}
		_, err := run(src)
		if len(x.res.Violations) > nviol {
			return
		}
		if x.heldHad[slot] && x.frozenMsg[x.heldOwner[slot]] && err == nil {
			x.fail("mutation-of-frozen-message-succeeded", "a wrapper obtained from the message before it was frozen still accepted %s", strings.TrimSpace(strings.Split(src, "\n")[1]))
		}
	case "set", "xset", "setf":
		kind, shape := fieldKind(op.S)
		src := fmt.Sprintf("def op():\n    A.%s = V\nop()\nR = None\n", op.S)
		switch op.Op {
		case "xset":
			// the value is whatever another field of B holds: a scalar, an enum
			// value of this or the other enum type, a sub-message, or a repeated
			// / map view (whose element type may or may not be the target's)
			from := c20allFields[int(op.Args[0])%len(c20allFields)]
			bv, err := B.Attr(from)
			if err != nil || bv == nil {
				return
			}
			V = bv
			env["V"] = V
			src = fmt.Sprintf("def op():\n    A.%s = B.%s\nop()\nR = None\n", op.S, from)
		case "setf":
			src = fmt.Sprintf("def op():\n    proto.set_field(A, Msg.%s, V)\nop()\nR = None\n", op.S)
		}
		_, err := run(src)
		if len(x.res.Violations) > nviol || mustFailFrozen(err, "assignment to ."+op.S) {
			return
		}
		if targetFrozen {
			x.rejected++
			return
		}
		if V == starlark.None {
			// None unsets the field: an accepted None must leave it cleared
			if fd := c20msg.Fields().ByName(protoreflect.Name(op.S)); err == nil && fd != nil && A.Message().ProtoReflect().Has(fd) {
				x.fail("lossy-assignment", "assigning None to .%s succeeded but the field still holds %v", op.S, A.Message().ProtoReflect().Get(fd))
			}
			return
		}
		switch shape {
		case "scalar", "msg":
			x.judgeScalar(kind, V, err, func() starlark.Value {
				if op.Op == "setf" {
					r, gerr, pv := x.star(fmt.Sprintf("R = proto.get_field(A, Msg.%s)\n", op.S), env)
					if pv != nil {
						x.fail("host-panic", "proto.get_field(m, Msg.%s): Go panic: %v", op.S, pv)
					} else if gerr != nil {
						x.fail("read-back-failed", "proto.get_field(m, Msg.%s) of the message's own field: %v", op.S, gerr)
					}
					if r != nil {
						return r
					}
				}
				r, _ := A.Attr(op.S)
				return r
			})
		case "rep":
			x.judgeRepeated(kind, A, op.S, V, err)
		case "map":
			x.judgeMap(kind, A, op.S, V, err)
		}
	case "setsub":
		kind, _ := fieldKind(op.S)
		had := A.Message().ProtoReflect().Has(c20msg.Fields().ByName("sub"))
		_, err := run(fmt.Sprintf("def op():\n    A.sub.%s = V\nop()\nR = None\n", op.S))
		if len(x.res.Violations) > nviol || mustFailFrozen(err, "assignment to .sub."+op.S) {
			return
		}
		if had && !targetFrozen && V != starlark.None {
			x.judgeScalar(kind, V, err, func() starlark.Value {
				s, _ := A.Attr("sub")
				r, _ := s.(*starproto.Message).Attr(op.S)
				return r
			})
		}
	case "append", "setidx":
		kind, _ := fieldKind(op.S)
		fd := c20msg.Fields().ByName(protoreflect.Name(op.S))
		had := A.Message().ProtoReflect().Has(fd)
		n := 0
		if had {
			n = A.Message().ProtoReflect().Get(fd).List().Len()
		}
		var err error
		if op.Op == "append" {
			_, err = run(fmt.Sprintf("def op():\n    A.%s.append(V)\nop()\nR = None\n", op.S))
		} else {
			i := 0
			if len(op.Args) > 0 {
				i = int(op.Args[0])
			}
			env["I"] = starlark.MakeInt(i)
			_, err = run(fmt.Sprintf("def op():\n    A.%s[I] = V\nop()\nR = None\n", op.S))
			if i < 0 || i >= n {
				return // index out of range: only the general clauses apply
			}
		}
		if len(x.res.Violations) > nviol {
			return
		}
		if had && mustFailFrozen(err, op.Op+" on ."+op.S) {
			return
		}
		if !had || targetFrozen || strings.HasPrefix(kind, "msg") {
			return // the default (absent) repeated field is a frozen empty view
		}
		if verdict := expectScalar(kind, V); verdict == "fail" && err == nil {
			x.fail("invalid-value-accepted", "element %s stored in repeated %s", c20pool[op.B].desc, kind)
		} else if err == nil {
			x.accepted++
			l := A.Message().ProtoReflect().Get(fd).List()
			if op.Op == "append" && l.Len() != n+1 {
				x.fail("lossy-assignment", "append succeeded but length went %d -> %d", n, l.Len())
			}
		} else {
			x.rejected++
			if verdict == "store" {
				x.fail("valid-value-rejected", "element %s for repeated %s: %v", c20pool[op.B].desc, kind, err)
			}
		}
	case "setkey":
		K := c20pool[int(op.Args[0])%len(c20pool)].v()
		env["K"] = K
		fd := c20msg.Fields().ByName(protoreflect.Name(op.S))
		had := A.Message().ProtoReflect().Has(fd)
		_, err := run(fmt.Sprintf("def op():\n    A.%s[K] = V\nop()\nR = None\n", op.S))
		if len(x.res.Violations) > nviol {
			return
		}
		if had && mustFailFrozen(err, "map entry assignment on ."+op.S) {
			return
		}
		if !had || targetFrozen {
			return // the default (absent) map field is a frozen empty view
		}
		kind, _ := fieldKind(op.S)
		kk, vk, _ := strings.Cut(kind, ":")
		verdict := worse(expectScalar(kk, K), expectScalar(vk, V))
		if err != nil {
			x.rejected++
			if verdict == "store" {
				x.fail("valid-value-rejected", "map entry %s: %s for map<%s>: %v", c20pool[int(op.Args[0])%len(c20pool)].desc, c20pool[op.B].desc, kind, err)
			}
			return
		}
		x.accepted++
		if verdict == "fail" {
			x.fail("invalid-value-accepted", "map<%s> accepted key %s / value %s", kind, c20pool[int(op.Args[0])%len(c20pool)].desc, c20pool[op.B].desc)
			return
		}
		if verdict == "store" && vk != "float" {
			r, _ := A.Attr(op.S)
			mf, ok := r.(*starproto.MapField)
			if !ok {
				x.fail("lossy-assignment", "map field reads back as %v", r)
				return
			}
			got, found, gerr := mf.Get(K)
			if gerr != nil || !found || !sameScalar(vk, got, V) {
				x.fail("lossy-assignment", "map<%s>[%s] = %s succeeded but reads back %v (found=%v err=%v)", kind, c20pool[int(op.Args[0])%len(c20pool)].desc, c20pool[op.B].desc, got, found, gerr)
			}
		}
	case "alias_sub", "alias_rec", "alias_child":
		src := map[string]string{"alias_sub": "A.sub = B.sub", "alias_rec": "A.rec = B", "alias_child": "A.sub = B.sub.child"}[op.Op]
		_, err := run("def op():\n    " + src + "\nop()\nR = None\n")
		if len(x.res.Violations) > nviol || mustFailFrozen(err, src) {
			return
		}
		if err == nil {
			x.accepted++
		}
	case "alias_rep", "alias_map":
		fd := c20msg.Fields().ByName(protoreflect.Name(op.S))
		srcBefore := ""
		if r, err := B.Attr(op.S); err == nil {
			srcBefore = r.String()
		}
		_, err := run(fmt.Sprintf("def op():\n    A.%s = B.%s\nop()\nR = None\n", op.S, op.S))
		if len(x.res.Violations) > nviol || mustFailFrozen(err, "assignment to ."+op.S) {
			return
		}
		if err == nil && !targetFrozen {
			x.accepted++
			got := ""
			if r, e2 := A.Attr(op.S); e2 == nil {
				got = r.String()
			}
			if got != srcBefore {
				x.fail("lossy-assignment", "A.%s = B.%s succeeded but reads back %s; the value assigned was %s", op.S, op.S, got, srcBefore)
			}
		}
		_ = fd
	case "extset", "extget":
		// extension fields of the proto2 sub-message A.old, through proto.set_field / get_field / has
		xi := int(op.Args[0]) % len(c20exts)
		kind := c20extKinds[xi]
		env["EXT"] = starproto.FieldDescriptor{Desc: c20exts[xi]}
		fdOld := c20msg.Fields().ByName("old")
		hadOld := A.Message().ProtoReflect().Has(fdOld)
		if op.Op == "extget" {
			_, err := run("R = (proto.get_field(A.old, EXT), proto.has(A.old, EXT))\n")
			if len(x.res.Violations) == nviol && err != nil {
				x.fail("read-back-failed", "proto.get_field / proto.has of an extension of A.old: %v", err)
			}
			return
		}
		_, err := run("def op():\n    proto.set_field(A.old, EXT, V)\nop()\nR = None\n")
		if len(x.res.Violations) > nviol {
			return
		}
		if hadOld && mustFailFrozen(err, "proto.set_field(m.old, ext, …)") {
			return
		}
		if !hadOld {
			if err == nil {
				x.fail("mutation-of-frozen-message-succeeded", "proto.set_field on the default (unset, frozen) sub-message succeeded")
			}
			return
		}
		if targetFrozen {
			return
		}
		read := func() starlark.Value {
			r, gerr, pv := x.star("R = proto.get_field(A.old, EXT)\n", env)
			if pv != nil {
				x.fail("host-panic", "proto.get_field of an extension: %v", pv)
			} else if gerr != nil {
				x.fail("read-back-failed", "proto.get_field of an extension just set: %v", gerr)
			}
			return r
		}
		if V == starlark.None {
			if err == nil {
				if h, _, _ := x.star("R = proto.has(A.old, EXT)\n", env); h == starlark.True {
					x.fail("lossy-assignment", "set_field(m.old, ext, None) succeeded but the extension is still present")
				}
			}
			return
		}
		if strings.HasPrefix(kind, "rep:") {
			if err == nil {
				x.accepted++
			} else {
				x.rejected++
			}
			return
		}
		x.judgeScalar(kind, V, err, read)
	case "foreign":
		// a field descriptor of another message type: must be refused (an error,
		// never a panic) and must leave the message as it was
		before := detEnc(A)
		forms := []string{"R = proto.get_field(A, Sub.s)\n", "def op():\n    proto.set_field(A, Sub.s, \"x\")\nop()\nR = None\n", "def op():\n    proto.set_field(A, Sub.n, 5)\nop()\nR = None\n", "R = proto.has(A, Sub.s)\n", "R = proto.get_field(A.sub, Msg.f_int32)\n"}
		_, err := run(forms[int(op.Args[0])%len(forms)])
		if len(x.res.Violations) > nviol {
			return
		}
		if err == nil {
			x.fail("invalid-value-accepted", "%s accepted a field of another message type", strings.TrimSpace(forms[int(op.Args[0])%len(forms)]))
		}
		if !bytes.Equal(before, detEnc(A)) {
			x.fail("ill-typed-field", "a refused foreign-field operation changed the message")
		}
	case "frzarg":
		form := c20frzForms[int(op.Args[0])%len(c20frzForms)]
		run("def op():\n    " + form + "\nop()\nR = None\n")
		// (the snapshot taken by frz at freeze time is compared after the op)
	case "viewmut":
		_, err := run("def op():\n    vw = A.r_sub\n    vw[0].s = \"through-view\"\nop()\nR = None\n")
		if len(x.res.Violations) > nviol {
			return
		}
		if A.Message().ProtoReflect().Get(c20msg.Fields().ByName("r_sub")).List().Len() > 0 {
			mustFailFrozen(err, "vw = m.r_sub; vw[0].s = …")
		}
	case "mapmsgmut":
		_, err := run("def op():\n    A.m_isub[1].s = \"through-map\"\nop()\nR = None\n")
		if len(x.res.Violations) > nviol {
			return
		}
		if A.Message().ProtoReflect().Get(c20msg.Fields().ByName("m_isub")).Map().Has(protoreflect.ValueOfInt32(1).MapKey()) {
			mustFailFrozen(err, "m.m_isub[1].s = …")
		}
	case "itermut":
		run(fmt.Sprintf("def op():\n    for e in A.%s:\n        A.%s.append(e)\nop()\nR = None\n", op.S, op.S))
	case "roundtrip":
		if hasCycle(A.Message().ProtoReflect(), map[protoreflect.Message]bool{}) {
			return
		}
		want := detEnc(A)
		if strings.HasPrefix(string(want), "marshal-error:") {
			return
		}
		v, err := run("R = proto.unmarshal(Msg, proto.marshal(A))\n")
		if len(x.res.Violations) > nviol {
			return
		}
		if err != nil {
			x.fail("roundtrip-failed", "binary: %v", err)
			return
		}
		if got := detEnc(v.(*starproto.Message)); !bytes.Equal(got, want) {
			x.fail("roundtrip-differs", "binary round trip: %q -> %q", want, got)
		}
		v, err = run("R = proto.unmarshal_text(Msg, proto.marshal_text(A))\n")
		if len(x.res.Violations) > nviol {
			return
		}
		if err != nil {
			x.fail("roundtrip-failed", "text: %v", err)
			return
		}
		if got := detEnc(v.(*starproto.Message)); !bytes.Equal(got, want) {
			x.fail("roundtrip-differs", "text round trip: %q -> %q", want, got)
		}
	}
}

func (x *c20run) judgeScalar(kind string, V starlark.Value, err error, read func() starlark.Value) {
	verdict := expectScalar(kind, V)
	if V == starlark.None {
		return
	}
	if err != nil {
		x.rejected++
		if verdict == "store" {
			x.fail("valid-value-rejected", "%s field: %v", kind, err)
		}
		return
	}
	x.accepted++
	if verdict == "fail" {
		x.fail("invalid-value-accepted", "a %s field accepted it", kind)
		return
	}
	if kind == "float" {
		return // float32 rounds: exact read-back is not promised
	}
	var got starlark.Value
	if pv := safeRun(func() { got = read() }); pv != nil {
		x.fail("host-panic", "reading the field back: %v", pv)
		return
	}
	if got == nil || !sameScalar(kind, got, V) {
		if _, isInt := V.(starlark.Int); isInt && kind == "double" {
			return
		}
		x.fail("lossy-assignment", "a %s field accepted it but reads back %v", kind, got)
	}
}

func (x *c20run) judgeRepeated(kind string, A *starproto.Message, field string, V starlark.Value, err error) {
	it, ok := V.(starlark.Iterable)
	if V == starlark.None {
		return
	}
	if !ok {
		if err == nil {
			x.fail("invalid-value-accepted", "repeated field accepted a non-iterable")
		} else {
			x.rejected++
		}
		return
	}
	var elems []starlark.Value
	iter := it.Iterate()
	var e starlark.Value
	for iter.Next(&e) {
		elems = append(elems, e)
	}
	iter.Done()
	worst := "store"
	for _, e := range elems {
		switch expectScalar(kind, e) {
		case "fail":
			worst = "fail"
		case "either":
			if worst == "store" {
				worst = "either"
			}
		}
	}
	if _, isDict := V.(*starlark.Dict); isDict {
		// iterating a dict yields its keys: judged like any other iterable
	}
	if err != nil {
		x.rejected++
		if worst == "store" {
			x.fail("valid-value-rejected", "repeated %s: %v", kind, err)
		}
		return
	}
	x.accepted++
	if worst == "fail" {
		x.fail("invalid-value-accepted", "repeated %s accepted an element of the wrong type or range", kind)
		return
	}
	r, _ := A.Attr(field)
	rf, ok := r.(*starproto.RepeatedField)
	if !ok || rf.Len() != len(elems) {
		x.fail("lossy-assignment", "repeated %s: assigned %d elements, reads back %v", kind, len(elems), r)
		return
	}
	if kind == "float" {
		return
	}
	for i, e := range elems {
		if !sameScalar(kind, rf.Index(i), e) && expectScalar(kind, e) == "store" {
			x.fail("lossy-assignment", "repeated %s: element %d reads back %v, assigned %v", kind, i, rf.Index(i), e)
			return
		}
	}
}

func worse(a, b string) string {
	rank := map[string]int{"store": 0, "either": 1, "fail": 2}
	if rank[b] > rank[a] {
		return b
	}
	return a
}

// judgeMap: whole-field assignment to a map field.
func (x *c20run) judgeMap(kind string, A *starproto.Message, field string, V starlark.Value, err error) {
	kk, vk, _ := strings.Cut(kind, ":")
	mp, ok := V.(starlark.IterableMapping)
	if !ok {
		if err == nil {
			x.fail("invalid-value-accepted", "map field accepted a %s", V.Type())
		} else {
			x.rejected++
		}
		return
	}
	items := mp.Items()
	worst := "store"
	for _, it := range items {
		worst = worse(worst, worse(expectScalar(kk, it[0]), expectScalar(vk, it[1])))
	}
	if err != nil {
		x.rejected++
		if worst == "store" {
			x.fail("valid-value-rejected", "map<%s>: %v", kind, err)
		}
		return
	}
	x.accepted++
	if worst == "fail" {
		x.fail("invalid-value-accepted", "map<%s> accepted a key or value of the wrong type or range", kind)
		return
	}
	r, _ := A.Attr(field)
	mf, ok := r.(*starproto.MapField)
	if !ok {
		x.fail("lossy-assignment", "map<%s> reads back as %v", kind, r)
		return
	}
	if worst == "store" && mf.Len() != len(items) {
		x.fail("lossy-assignment", "map<%s>: assigned %d entries, reads back %d", kind, len(items), mf.Len())
		return
	}
	if vk == "float" {
		return
	}
	for _, it := range items {
		if expectScalar(kk, it[0]) != "store" || expectScalar(vk, it[1]) != "store" {
			continue
		}
		got, found, gerr := mf.Get(it[0])
		if gerr != nil || !found || !sameScalar(vk, got, it[1]) {
			x.fail("lossy-assignment", "map<%s>: entry %v: %v reads back %v (found=%v err=%v)", kind, it[0], it[1], got, found, gerr)
			return
		}
	}
}

func (c20) Shrink(sc *Scenario) []*Scenario {
	var out []*Scenario
	for i := len(sc.Ops) - 1; i >= 0; i-- {
		c := sc.Clone()
		c.Ops = append(c.Ops[:i], c.Ops[i+1:]...)
		out = append(out, c)
	}
	return out
}

func (c20) Shape(sc *Scenario, class string) string {
	// How did storage come to be shared between wrappers? (the minimiser
	// leaves only the ops the violation needs)
	alias, copyOp, self := false, false, false
	var ops []string
	for _, o := range sc.Ops {
		s := o.Op
		switch o.Op {
		case "alias_sub", "alias_rec", "alias_child":
			alias = true
		case "alias_rep", "alias_map":
			// assigning a repeated/map field of MESSAGES copies the container but
			// aliases each element message (the same toProto path)
			if k, _ := fieldKind(o.S); strings.Contains(k, "msg") {
				alias = true
			}
		case "copy":
			copyOp = true
		}
		if o.Op == "xset" {
			// assigning a message (or a container of messages) read from another
			// field aliases it, like alias_sub / alias_rep
			if k, _ := fieldKind(o.S); strings.Contains(k, "msg") {
				alias = true
			}
		}
		if o.Op == "set" || o.Op == "xset" || o.Op == "setf" || o.Op == "append" || o.Op == "setidx" || o.Op == "alias_rep" || o.Op == "alias_map" || o.Op == "newkw" || o.Op == "newdict" {
			k, shape := fieldKind(o.S)
			s += ":" + shape + ":" + k
		}
		if (o.Op == "alias_rep" || o.Op == "alias_map") && int(o.A) == o.Obj {
			s += ":self"
			self = true
		}
		ops = append(ops, s)
	}
	_ = self
	switch class {
	case "frozen-message-changed", "cyclic-message", "mutation-of-frozen-message-succeeded":
		via := "none"
		switch {
		case alias && copyOp:
			via = "alias+copy"
		case alias:
			via = "alias"
		case copyOp:
			via = "copy"
		}
		return class + "/via:" + via
	}
	if len(ops) > 4 {
		ops = ops[len(ops)-4:]
	}
	return class + "/" + strings.Join(ops, ",")
}
