//go:build !race

package main

const raceEnabled = false

func raceErrors() int { return 0 }
