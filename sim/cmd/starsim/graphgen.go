package main

import (
	"fmt"
	"strings"
)

// Object-graph module generator (C04, C05): module programs whose purpose is
// to leave a rich graph in their globals — shared sub-objects, nesting,
// self-containing lists/dicts, tuples holding lists, dict keys and set
// elements that are closures or bound methods of mutable receivers, structs
// with mutable fields, closures over mutable locals, mutable parameter
// defaults, values passed in by the host and stored, values handed to the host
// with keep() and not stored.

type GraphOpts struct {
	D         Dialect
	Blocks    int
	Faults    bool // sprinkle fault() calls
	ErrorAt   int  // >=0: plant a dynamic error after that many blocks
	SelfRef   bool // allow nested functions that refer to themselves through cells
	Host      bool // use host-supplied predeclared values host_list/host_dict
	Loads     []LoadSpec
	FailFuncs bool // functions that fail at a chosen depth (positions get decoded)
	Prefix    string
}

type graphGen struct {
	r         *Rng
	o         GraphOpts
	units     []string
	nid       int
	colls     []string // global names bound to mutable collections (list/dict/set)
	lists     []string
	dicts     []string
	sets      []string
	funcs     []string // zero-arg callable globals
	any       []string // every global
	hashables []string
}

func (g *graphGen) fresh(p string) string {
	g.nid++
	return fmt.Sprintf("%s%s%d", g.o.Prefix, p, g.nid)
}

func (g *graphGen) unit(format string, args ...any) {
	g.units = append(g.units, fmt.Sprintf(format, args...))
}

func (g *graphGen) scalar() string {
	return g.r.Pick([]string{"1", "2", "\"s\"", "\"a-long-string-over-12-bytes\"", "None", "True", "3.5", "(1, 2)", "4294967296", "(3, 1, 2)", "(\"b\", \"a\", \"c\")"})
}

// leaf is a fresh anonymous mutable value.
func (g *graphGen) leaf() string {
	switch g.r.Intn(4) {
	case 0:
		return fmt.Sprintf("[%s, %s]", g.scalar(), g.scalar())
	case 1:
		return fmt.Sprintf("{%q: %s}", g.fresh("k"), g.scalar())
	case 2:
		if g.o.D.Set {
			return fmt.Sprintf("set([%d, %d])", g.r.Intn(5), 5+g.r.Intn(5))
		}
		return "[0]"
	default:
		return "[]"
	}
}

// ref is an existing global or a fresh leaf.
func (g *graphGen) ref() string {
	if len(g.any) > 0 && g.r.Chance(2, 3) {
		return g.any[g.r.Intn(len(g.any))]
	}
	return g.leaf()
}

// anon wraps a value in a chain of anonymous containers so that it is
// reachable only through chosen edge kinds.
func (g *graphGen) anon(inner string, depth int) string {
	if depth <= 0 {
		return inner
	}
	in := g.anon(inner, depth-1)
	switch g.r.Intn(9) {
	case 0:
		return fmt.Sprintf("[%s, %s]", g.scalar(), in)
	case 1:
		return fmt.Sprintf("(%s,)", in)
	case 2:
		return fmt.Sprintf("{%q: %s}", g.fresh("k"), in)
	case 3: // dict key: must be hashable -> go through a bound method or a tuple of one
		return fmt.Sprintf("{%s: %s}", g.hashable(in), g.scalar())
	case 4:
		if g.o.D.Set {
			return fmt.Sprintf("set([%s])", g.hashable(in))
		}
		return fmt.Sprintf("[%s]", in)
	case 5:
		return fmt.Sprintf("struct(f=%s, n=%s)", in, g.scalar())
	case 6:
		return fmt.Sprintf("(lambda q=%s: q)", in) // parameter default
	case 7:
		return fmt.Sprintf("(lambda v: (lambda: v))(%s)", in) // closure cell
	default:
		return fmt.Sprintf("[%s].append", in) // receiver (a list holding it)
	}
}

// hashable returns a hashable value from which v is reachable.
func (g *graphGen) hashable(v string) string {
	switch g.r.Intn(4) {
	case 0:
		return fmt.Sprintf("[%s].append", v)
	case 1:
		return fmt.Sprintf("(lambda v: (lambda: v))(%s)", v)
	case 2:
		return fmt.Sprintf("(1, [%s].pop)", v)
	default:
		return fmt.Sprintf("(lambda q=%s: q)", v)
	}
}

func (g *graphGen) bind(kind, expr string) string {
	name := g.fresh("g")
	g.unit("%s = %s\n", name, expr)
	g.any = append(g.any, name)
	switch kind {
	case "list":
		g.lists = append(g.lists, name)
		g.colls = append(g.colls, name)
	case "dict":
		g.dicts = append(g.dicts, name)
		g.colls = append(g.colls, name)
	case "set":
		g.sets = append(g.sets, name)
		g.colls = append(g.colls, name)
	}
	return name
}

func (g *graphGen) block() {
	switch n := g.r.Intn(23); n {
	case 20: // collections at and around the table's growth thresholds
		sz := []int{7, 8, 9, 12, 13, 14, 25, 26, 27, 52, 53}[g.r.Intn(11)]
		if g.r.Chance(1, 3) {
			// every key in ONE chain (ints that differ only above bit 32 share
			// Int.Hash): 3 and more overflow buckets
			n := g.r.Pick3(17, 25, 41)
			if g.o.D.Set && g.r.Bool() {
				g.bind("set", fmt.Sprintf("set([q * 4294967296 + %d for q in range(%d)])", g.r.Intn(3), n))
			} else {
				g.bind("dict", fmt.Sprintf("{q * 4294967296 + %d: [q] for q in range(%d)}", g.r.Intn(3), n))
			}
			return
		}
		switch g.r.Intn(3) {
		case 0:
			g.bind("dict", fmt.Sprintf("{q: str(q) for q in range(%d)}", sz))
		case 1:
			if g.o.D.Set {
				g.bind("set", fmt.Sprintf("set([(\"e\", q) for q in range(%d)])", sz))
			} else {
				g.bind("dict", fmt.Sprintf("{(\"key-%%d\" %% q): [q] for q in range(%d)}", sz))
			}
		default:
			g.bind("list", fmt.Sprintf("[[q] for q in range(%d)]", sz))
		}
		return
	case 21, 22: // hashable compound values (usable as dict keys / set elements by readers)
		h := g.bind("", fmt.Sprintf("struct(a=%d, b=%q, c=(1, (2, \"x\")))", g.r.Intn(9), g.r.Pick([]string{"s", "a-long-string-over-12-bytes"})))
		g.hashables = append(g.hashables, h)
		if g.r.Bool() {
			// a struct that is itself a sum (of operands with and without common field names)
			h3 := g.bind("", fmt.Sprintf("%s + struct(b=%d, d=\"t\")", h, g.r.Intn(5)))
			g.hashables = append(g.hashables, h3)
			h4 := g.bind("", fmt.Sprintf("struct(a=1) + struct(a=2, m=%d) + struct(m=3)", g.r.Intn(5)))
			g.hashables = append(g.hashables, h4)
		}
		if g.r.Bool() {
			h2 := g.bind("", fmt.Sprintf("(%s, %d, \"t\")", h, g.r.Intn(5)))
			g.hashables = append(g.hashables, h2)
		}
		return
	}
	switch n := g.r.Intn(29); n {
	case 0:
		g.bind("list", fmt.Sprintf("[%s, %s, %s]", g.scalar(), g.ref(), g.scalar()))
	case 1:
		g.bind("dict", fmt.Sprintf("{%q: %s, %q: %s}", g.fresh("k"), g.ref(), g.fresh("k"), g.scalar()))
	case 2:
		if g.o.D.Set {
			g.bind("set", fmt.Sprintf("set([%s, %d, \"e\"])", g.hashable(g.leaf()), g.r.Intn(9)))
		} else {
			g.bind("list", "[7, 8]")
		}
	case 3: // shared sub-object
		a := g.bind("list", g.leaf2("list"))
		g.bind("list", fmt.Sprintf("[%s, %s]", a, a))
		g.bind("dict", fmt.Sprintf("{\"p\": %s, \"q\": (%s, [3])}", a, a))
	case 4: // self-containing
		if g.r.Bool() {
			a := g.bind("list", "[1]")
			g.unit("%s.append(%s)\n", a, a)
		} else {
			a := g.bind("dict", "{}")
			g.unit("%s[\"self\"] = %s\n", a, a)
		}
	case 5: // mutual containment
		a := g.bind("list", "[\"a\"]")
		b := g.bind("dict", fmt.Sprintf("{\"a\": %s}", a))
		g.unit("%s.append(%s)\n", a, b)
	case 6:
		g.bind("", fmt.Sprintf("struct(x=%s, y={\"z\": [%s]})", g.ref(), g.ref()))
	case 7: // closure over a mutable local
		locs := []string{"[0]", "{}"}
		if len(g.lists) > 0 {
			locs = append(locs, g.lists[g.r.Intn(len(g.lists))])
		}
		mk, loc := g.fresh("mk"), g.r.Pick(locs)
		g.unit("def %s():\n    loc = %s\n    def inc(v=1):\n        m = getattr(loc, \"append\", None) or loc.update\n        m([(v, v)]) if type(loc) == \"dict\" else m(v)\n        return len(loc)\n    return inc\n", mk, loc)
		f := g.bind("", mk+"()")
		if g.r.Bool() {
			g.unit("%s()\n", f)
		}
		g.funcs = append(g.funcs, f)
	case 8: // mutable parameter default
		f := g.fresh("fd")
		if g.r.Bool() {
			g.unit("def %s(x=1, acc=%s):\n    acc.append(x)\n    return acc\n", f, g.r.Pick([]string{"[]", "[5]"}))
		} else {
			g.unit("def %s(x=1, *, acc={}):\n    acc[x] = len(acc)\n    return acc\n", f)
		}
		g.any = append(g.any, f)
		g.funcs = append(g.funcs, f)
		if g.r.Bool() {
			g.unit("%s()\n", f)
		}
	case 9: // bound methods of mutable receivers
		if len(g.lists) > 0 && g.r.Bool() {
			g.bind("", g.lists[g.r.Intn(len(g.lists))]+".append")
		} else {
			g.bind("", g.leaf2("list")+".extend")
		}
	case 10: // keys / elements that are closures or bound methods
		if g.o.D.Set && g.r.Bool() {
			g.bind("set", fmt.Sprintf("set([%s, %s])", g.hashable(g.leaf()), g.hashable(g.ref())))
		} else {
			g.bind("dict", fmt.Sprintf("{%s: 1, %s: %s}", g.hashable(g.leaf()), g.hashable(g.leaf()), g.ref()))
		}
	case 11: // anonymous chain
		g.bind("", g.anon(g.leaf(), g.r.Range(1, 4)))
	case 12: // host-supplied values, stored or merely used
		if g.o.Host {
			switch g.r.Intn(4) {
			case 0:
				g.bind("list", "host_list")
			case 1:
				g.bind("list", "[host_dict]")
			case 2:
				g.unit("host_list.append(%s)\n", g.scalar())
			default:
				g.unit("host_dict[%q] = %s\n", g.fresh("hk"), g.leaf())
			}
		} else {
			g.bind("list", g.leaf2("list"))
		}
	case 27: // a closure that, when called, mints a new closure over a variable of its enclosing (finished) call
		mk, in, lf := g.fresh("mkc"), g.fresh("inner"), g.fresh("leafc")
		g.unit("def %s():\n    x = %s\n    def %s():\n        def %s():\n            return x\n        return %s\n    return %s\n", mk, g.leaf(), in, lf, lf, in)
		f := g.bind("", mk+"()")
		g.funcs = append(g.funcs, f)
	case 28: // module functions that merely USE host-supplied values (never store them)
		if g.o.Host {
			f := g.fresh("usehost")
			g.unit("def %s():\n    return (len(host_list), len(host_dict), [e for e in host_list][:1], \"k\" in host_dict)\n", f)
			g.any = append(g.any, f)
			g.funcs = append(g.funcs, f)
		} else {
			g.bind("list", g.leaf2("list"))
		}
	case 25, 26: // top-level control flow that leaves a declared global unassigned
		if g.o.D.TopLevelControl {
			n := g.fresh("never")
			switch g.r.Intn(4) {
			case 0:
				g.unit("if len([]) > 0:\n    %s = [1]\n", n)
			case 1:
				g.unit("for %s in []:\n    pass\n", n)
			case 2:
				if g.o.D.While {
					g.unit("while len([]) > 0:\n    %s = {}\n", n)
				} else {
					g.unit("if not True:\n    %s = {}\n", n)
				}
			default:
				g.unit("if True:\n    pass\nelse:\n    %s = [2]\n", n)
			}
			g.bind("list", g.leaf2("list"))
		} else {
			g.bind("dict", g.leaf2("dict"))
		}
	case 23, 24: // a closure frozen by the host while the call that created it is still running
		f, mk := g.fresh("early"), g.fresh("mk")
		first := g.r.Pick([]string{"    x = " + g.leaf() + "\n", "", "    x = None\n"})
		g.unit("def %s():\n%s    def %s():\n        return x\n    freeze(%s)\n    x = %s\n    return %s\n", mk, first, f, f, g.leaf(), f)
		g.bind("", mk+"()")
	case 20, 21, 22: // new values built from a frozen operand and a fresh mutable one
		if g.o.Host {
			in := g.leaf()
			if g.r.Chance(1, 3) {
				in = g.anon(g.leaf(), 1)
			}
			forms := []string{
				"hf_struct + struct(extra=%s)", "struct(extra=%s) + hf_struct", "hf_struct + struct(a=%s)", "hf_struct.c + struct(e=%s)",
				"hf_list + [%s]", "[%s] + hf_list", "hf_tuple + (%s,)", "(%s,) + hf_tuple", "hf_dict | {\"k\": %s}", "{\"k\": %s} | hf_dict",
				"hf_list[1:] + [%s]", "hf_list * 2 + [%s]", "dict(hf_dict, k=%s)", "[hf_list[:], %s]", "sorted(hf_set) + [%s]", "list(hf_tuple) + [%s]",
			}
			g.bind("", fmt.Sprintf(forms[g.r.Intn(len(forms))], in))
		} else {
			g.bind("", fmt.Sprintf("(%s, %s)", g.ref(), g.leaf()))
		}
	case 13: // handed to the host, not stored
		g.unit("keep(%s, %q)\n", g.leaf(), g.fresh("tmp"))
	case 14: // handed to the host and stored
		g.bind("", fmt.Sprintf("keep(%s, %q)", g.leaf(), g.fresh("kept")))
	case 15: // function of the module that mutates module state when called later
		if len(g.colls) > 0 {
			c := g.colls[g.r.Intn(len(g.colls))]
			f := g.fresh("mut")
			g.unit("def %s():\n    x = %s\n    m = getattr(x, \"append\", None) or getattr(x, \"add\", None)\n    if m:\n        m(99)\n    else:\n        x[\"new-key\"] = 99\n    return x\n", f, c)
			g.any = append(g.any, f)
			g.funcs = append(g.funcs, f)
		}
	case 16: // nested functions that refer to themselves / each other through cells
		if g.o.SelfRef {
			mk := g.fresh("rec")
			if g.r.Bool() {
				g.unit("def %s():\n    def g():\n        return g\n    return g\n", mk)
			} else {
				g.unit("def %s():\n    def a():\n        return b\n    def b():\n        return a\n    return a\n", mk)
			}
			g.bind("", mk+"()")
		} else {
			mk := g.fresh("fac")
			g.unit("def %s(n):\n    def g(k):\n        return [n, k]\n    return g\n", mk)
			g.bind("", mk+"([1])")
		}
	case 17:
		if g.o.Faults {
			g.unit("fault(%q)\n", g.fresh("t"))
		} else {
			g.bind("list", fmt.Sprintf("[x * 2 for x in range(%d)]", g.r.Range(0, 4)))
		}
	case 18: // loaded values (already frozen) embedded in fresh containers
		if len(g.o.Loads) > 0 {
			l := g.o.Loads[g.r.Intn(len(g.o.Loads))]
			g.bind("list", fmt.Sprintf("[%s, %s]", l.Names[g.r.Intn(len(l.Names))], g.leaf()))
		} else {
			g.bind("dict", g.leaf2("dict"))
		}
	default: // functions failing at a chosen depth (backtraces, line tables)
		if g.o.FailFuncs {
			f := g.fresh("bad")
			g.unit("def %s(n=%d):\n    if n <= 0:\n        return [1][5]\n    return %s(n - 1) + 1\n", f, g.r.Range(0, 3), f)
			if !g.o.D.Recursion {
				g.units[len(g.units)-1] = fmt.Sprintf("def %s_in(n):\n    return [1][n + 5]\ndef %s(n=0):\n    return %s_in(n) + 1\n", f, f, f)
			}
			g.any = append(g.any, f)
			g.funcs = append(g.funcs, f)
		} else {
			g.bind("", fmt.Sprintf("(%s, %s)", g.ref(), g.leaf()))
		}
	}
}

func (g *graphGen) leaf2(kind string) string {
	switch kind {
	case "list":
		return fmt.Sprintf("[%s, %s]", g.scalar(), g.scalar())
	case "dict":
		return fmt.Sprintf("{%q: %s}", g.fresh("k"), g.scalar())
	}
	return "[]"
}

// GraphMeta names the globals a generated module binds, by kind.
type GraphMeta struct {
	Any, Lists, Dicts, Sets, Funcs, Hashables []string
}

// GraphModule generates a module program.
func GraphModule(r *Rng, o GraphOpts) []string {
	u, _ := GraphModuleMeta(r, o)
	return u
}

// GraphModuleMeta generates a module program and reports what it binds.
func GraphModuleMeta(r *Rng, o GraphOpts) ([]string, GraphMeta) {
	g := &graphGen{r: r, o: o}
	for _, l := range o.Loads {
		var parts []string
		for _, n := range l.Names {
			parts = append(parts, fmt.Sprintf("%q", n))
		}
		g.unit("load(%q, %s)\n", l.Module, strings.Join(parts, ", "))
	}
	for i := 0; i < o.Blocks; i++ {
		if o.ErrorAt == i {
			switch r.Intn(4) {
			case 0:
				g.unit("%s = 1 // 0\n", g.fresh("e"))
			case 1:
				g.unit("def %s(x):\n    return [1][x + 5]\n%s = [%s(q) for q in range(2)]\n", "boom", g.fresh("e"), "boom")
			case 2:
				g.unit("fail(\"module failed\")\n")
			default:
				g.unit("%s = {}[\"missing\"]\n", g.fresh("e"))
			}
		}
		g.block()
	}
	return g.units, GraphMeta{Any: g.any, Lists: g.lists, Dicts: g.dicts, Sets: g.sets, Funcs: g.funcs, Hashables: g.hashables}
}
