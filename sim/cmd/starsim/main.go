package main

import (
	"bufio"
	"encoding/json"
	"flag"
	"fmt"
	"os"
	"os/exec"
	"path/filepath"
	"runtime"
	"runtime/debug"
	"sort"
	"strconv"
	"strings"
	"sync"
	"time"
	"verifsim/sched"
)

// Exit codes: 0 held, 1 violation (with a VIOLATION line), 2 harness trouble.

func main() {
	debug.SetMaxStack(1 << 30) // the Go default, stated: 100_000 Starlark frames must fit (the interpreter's own limit)
	installHooks()
	startMemWatchdog()
	if len(os.Args) < 2 {
		fmt.Fprintln(os.Stderr, "usage: starsim check|worker|replay|gen|fingerprint ...")
		os.Exit(2)
	}
	switch os.Args[1] {
	case "check":
		os.Exit(cmdCheck(os.Args[2:]))
	case "worker":
		os.Exit(cmdWorker(os.Args[2:]))
	case "replay":
		os.Exit(cmdReplay(os.Args[2:]))
	case "gen":
		os.Exit(cmdGen(os.Args[2:]))
	case "c03child":
		os.Exit(cmdC03Child(os.Args[2:]))
	case "fingerprint":
		os.Exit(cmdFingerprint(os.Args[2:]))
	default:
		fmt.Fprintln(os.Stderr, "unknown command", os.Args[1])
		os.Exit(2)
	}
}

// setStackCap: workloads whose generators can recurse 100 000 Starlark frames
// deep (the interpreter's own limit; C03, C05, C07 use the general program
// generator with the Recursion option) need the Go default of 1 GB. The
// template-based workloads never recurse deeply, so runaway Go recursion in the
// code under test (a Freeze or String that lost its cycle guard) is made to
// die — and be reported — quickly.
func setStackCap(prop string) {
	switch prop {
	case "C04", "C06", "C12", "C20":
		debug.SetMaxStack(128 << 20)
	}
}

func verifDir() string {
	if d := os.Getenv("VERIF_DIR"); d != "" {
		return d
	}
	return "/verif"
}

func envSeed(def uint64) uint64 {
	if s := os.Getenv("VERIF_SEED"); s != "" {
		if v, err := strconv.ParseUint(s, 10, 64); err == nil {
			return v
		}
		if v, err := strconv.ParseInt(s, 10, 64); err == nil {
			return uint64(v)
		}
	}
	return def
}

// ---------------------------------------------------------------------------
// worker

type foundViolation struct {
	Scenario *Scenario `json:"scenario"`
	Class    string    `json:"class"`
	Detail   string    `json:"detail"`
}

type workerOut struct {
	From, To     int
	Next         int
	Runs         int64
	Invalid      int64
	Evals        int64
	Ticks        int64
	Points       uint64
	Switches     uint64
	Counters     map[string]int64
	NontrivSigs  []uint64
	SwitchSigs   []uint64
	Pairs        []uint16
	Fingerprints []uint64 // per scenario, in index order (determinism self-test)
	Violations   []foundViolation
	Samples      []json.RawMessage
	WallS        float64
	Whitebox     bool
}

func runGuarded(p Prop, sc *Scenario) (res *Result) {
	memBlown.Store(false)
	defer func() {
		if memBlown.Load() {
			// generator accident (memory blow-up): discard, never report
			memBlown.Store(false)
			res = NewResult()
			res.Invalid = true
			res.Count("discarded_memory_budget", 1)
			debug.FreeOSMemory()
		}
	}()
	defer func() {
		if r := recover(); r != nil {
			res = NewResult()
			buf := make([]byte, 4096)
			n := runtime.Stack(buf, false)
			res.Violate("harness-panic", "%v\n%s", r, buf[:n])
		}
	}()
	for _, pre := range sc.Prelude {
		if pre.N == nil {
			pre.N = map[string]int64{}
		}
		func() {
			defer func() { recover() }()
			p.Run(pre)
		}()
	}
	raceBefore, logOff := raceErrors(), raceLogSize()
	res = p.Run(sc)
	// (race build only) any report produced while this scenario ran is
	// attributed to it; duplicate suppression is off (GORACE), so every
	// scenario that races is flagged, not only the first.
	if n := raceErrors() - raceBefore; n > 0 && !res.Invalid {
		rep := raceLogSince(logOff)
		cls := "data-race"
		if !strings.Contains(rep, "go.starlark.net/") && rep != "" {
			cls = "harness-panic" // both stacks in harness code: harness defect
		}
		res.Violate(cls, "%d race report(s) during this scenario:\n%s", n, firstReport(rep))
	}
	return res
}

func cmdWorker(args []string) int {
	fs := flag.NewFlagSet("worker", flag.ExitOnError)
	prop := fs.String("prop", "", "property id")
	tier := fs.String("tier", "quick", "tier")
	seed := fs.Uint64("seed", 1, "seed")
	from := fs.Int("from", 0, "first index")
	to := fs.Int("to", 0, "last index (exclusive)")
	out := fs.String("out", "", "output file")
	stride := fs.Int("stride", 1, "index stride")
	skip := fs.String("skip", "", "comma-separated indexes to skip (scenarios that killed an earlier worker)")
	resume := fs.Bool("resume", false, "continue from the flushed output file")
	fs.Parse(args)
	skipSet := map[int]bool{}
	for _, x := range strings.Split(*skip, ",") {
		if v, err := strconv.Atoi(x); err == nil {
			skipSet[v] = true
		}
	}
	p := props[*prop]
	if p == nil {
		fmt.Fprintln(os.Stderr, "unknown property", *prop)
		return 2
	}
	setStackCap(*prop)
	start := time.Now()
	wo := &workerOut{From: *from, To: *to, Next: *from, Counters: map[string]int64{}}
	nontriv := map[uint64]bool{}
	swsigs := map[uint64]bool{}
	pairs := map[uint16]bool{}
	perClass := map[string]int{}
	if *resume {
		if b, err := os.ReadFile(*out); err == nil {
			var prev workerOut
			if json.Unmarshal(b, &prev) == nil && prev.Counters != nil {
				*wo = prev
				for _, k := range wo.NontrivSigs {
					nontriv[k] = true
				}
				for _, k := range wo.SwitchSigs {
					swsigs[k] = true
				}
				for _, k := range wo.Pairs {
					pairs[k] = true
				}
				for _, v := range wo.Violations {
					perClass[p.Shape(v.Scenario, v.Class)]++
				}
			}
		}
	}
	flush := func() {
		wo.NontrivSigs, wo.SwitchSigs, wo.Pairs = wo.NontrivSigs[:0], wo.SwitchSigs[:0], wo.Pairs[:0]
		for k := range nontriv {
			wo.NontrivSigs = append(wo.NontrivSigs, k)
		}
		for k := range swsigs {
			wo.SwitchSigs = append(wo.SwitchSigs, k)
		}
		for k := range pairs {
			wo.Pairs = append(wo.Pairs, k)
		}
		wo.WallS = time.Since(start).Seconds()
		wo.Whitebox = whiteboxOK
		b, _ := json.Marshal(wo)
		os.WriteFile(*out+".tmp", b, 0o644)
		os.Rename(*out+".tmp", *out)
	}
	prog, _ := os.Create(*out + ".progress")
	sinceFlush := 0
	for i := wo.Next; i < *to; i += *stride {
		if sinceFlush >= 20 {
			wo.Next = i
			flush()
			sinceFlush = 0
		}
		sinceFlush++
		if skipSet[i] {
			continue
		}
		if prog != nil {
			prog.WriteAt([]byte(fmt.Sprintf("%-12d", i)), 0)
		}
		sc := p.Generate(*seed, i, *tier)
		res := runGuarded(p, sc)
		if res.Invalid {
			wo.Invalid++
			continue
		}
		wo.Runs++
		wo.Evals += res.Evals
		wo.Ticks += res.Ticks
		wo.Points += res.Points
		wo.Switches += res.Switches
		for k, v := range res.Counters {
			wo.Counters[k] += v
		}
		if res.Nontrivial && len(nontriv) < 400000 {
			nontriv[res.Sig] = true // (capped: the count is then a lower bound)
		}
		if res.Switches > 0 {
			swsigs[res.SwitchSig] = true
		}
		for _, pr := range res.Pairs {
			pairs[pr] = true
		}
		wo.Fingerprints = append(wo.Fingerprints, res.Fingerprint)
		if len(wo.Samples) < 2 && res.Nontrivial {
			wo.Samples = append(wo.Samples, sampleOf(sc))
		}
		for _, cl := range res.Classes() {
			shapeKey := p.Shape(sc, cl)
			if perClass[shapeKey] < 2 && len(wo.Violations) < 60 {
				perClass[shapeKey]++
				d := ""
				for _, v := range res.Violations {
					if v.Class == cl {
						d = v.Detail
						break
					}
				}
				wo.Violations = append(wo.Violations, foundViolation{sc, cl, d})
				sinceFlush = 1 << 20 // flush before the next scenario
			}
		}
	}
	wo.Next = *to
	flush()
	return 0
}

func sampleOf(sc *Scenario) json.RawMessage {
	c := sc.Clone()
	src := c.Source()
	if len(src) > 1200 {
		src = src[:1200] + "…"
	}
	m := map[string]any{"family": c.Family, "index": c.Index, "dialect": c.D.String(), "program": src}
	if len(c.Cancels) > 0 {
		m["cancels"] = c.Cancels
	}
	if len(c.Faults) > 0 {
		m["faults"] = c.Faults
	}
	if len(c.Ops) > 0 {
		m["ops"] = c.Ops
	}
	if c.Sched.Strategy != "" {
		m["sched"] = c.Sched
	}
	if len(c.Readers) > 0 {
		m["readers"] = len(c.Readers)
	}
	if len(c.Keys) > 0 {
		m["keys"] = c.Keys
	}
	b, _ := json.Marshal(m)
	return b
}

// ---------------------------------------------------------------------------
// check (driver)

type knownFinding struct {
	Property  string `json:"property"`
	Status    string `json:"status"` // "known" | "fixed"
	Signature string `json:"signature"`
	Replay    string `json:"replay"`
	What      string `json:"what"`
	Commit    string `json:"commit,omitempty"`
}

func loadKnown() []knownFinding {
	// One finding per line:
	//   fixed: property=<id> <commit> <what failed> ## {"signature":…,"replay":…}
	//   known: property=<id> <what fails> ## {"signature":…,"replay":…}
	f, err := os.Open(filepath.Join(verifDir(), "known_findings.txt"))
	if err != nil {
		return nil
	}
	defer f.Close()
	var out []knownFinding
	sc := bufio.NewScanner(f)
	sc.Buffer(make([]byte, 1<<20), 1<<20)
	for sc.Scan() {
		line := strings.TrimSpace(sc.Text())
		if line == "" || strings.HasPrefix(line, "#") {
			continue
		}
		head, meta, ok := strings.Cut(line, " ## ")
		if !ok {
			continue
		}
		var k knownFinding
		if json.Unmarshal([]byte(meta), &k) != nil {
			continue
		}
		status, rest, _ := strings.Cut(head, ":")
		k.Status = strings.TrimSpace(status)
		for _, tok := range strings.Fields(rest) {
			if v, ok := strings.CutPrefix(tok, "property="); ok {
				k.Property = v
			}
		}
		if i := strings.Index(rest, "property="+k.Property); i >= 0 {
			k.What = strings.TrimSpace(rest[i+len("property="+k.Property):])
		}
		out = append(out, k)
	}
	return out
}

func cmdCheck(args []string) int {
	fs := flag.NewFlagSet("check", flag.ExitOnError)
	propID := fs.String("prop", "", "property id")
	tier := fs.String("tier", "quick", "quick|thorough")
	workers := fs.Int("workers", 16, "worker processes")
	n := fs.Int("n", 0, "override number of scenarios")
	level := fs.String("buildnote", "", "note about the build (e.g. race)")
	noEvidence := fs.Bool("no-evidence", false, "do not write the evidence file")
	fs.Parse(args)
	if t := os.Getenv("VERIF_TIER"); t != "" && *tier == "" {
		*tier = t
	}
	p := props[*propID]
	if p == nil {
		fmt.Fprintln(os.Stderr, "unknown property", *propID)
		return 2
	}
	defSeed := uint64(20260923)
	if *tier == "thorough" {
		defSeed = 7020260923
	}
	seed := envSeed(defSeed)
	fmt.Printf("starsim check property=%s tier=%s VERIF_SEED=%d %s\n", p.ID(), *tier, seed, *level)
	start := time.Now()
	total := p.Budget(*tier)
	if *n > 0 {
		total = *n
	}
	self, _ := os.Executable()
	raceBin := os.Getenv("STARSIM_RACE_BIN")
	raceEvery := 2 // C05: every second worker runs the -race build
	if p.ID() != "C05" {
		raceEvery = 4 // C03/C07 (second configuration): every fourth
		if *tier != "thorough" {
			raceEvery = 8
		}
	}
	tmp, err := os.MkdirTemp(filepath.Join(verifDir(), ".work"), "run-")
	if err != nil {
		os.MkdirAll(filepath.Join(verifDir(), ".work"), 0o755)
		tmp, err = os.MkdirTemp(filepath.Join(verifDir(), ".work"), "run-")
		if err != nil {
			fmt.Fprintln(os.Stderr, err)
			return 2
		}
	}
	defer os.RemoveAll(tmp)

	// Known findings first: replay the stored scenario of each "known"
	// entry; "fixed" entries are regression seeds that must pass.
	known := loadKnown()
	knownSigs := map[string]bool{}
	exit := 0
	var violLines []string
	for _, k := range known {
		if k.Property != p.ID() {
			continue
		}
		path := k.Replay
		if !filepath.IsAbs(path) {
			path = filepath.Join(verifDir(), path)
		}
		sc, err := LoadScenario(path)
		if err != nil {
			fmt.Fprintf(os.Stderr, "known finding %s: %v\n", k.Signature, err)
			return 2
		}
		classes, crashed := replayInChild(self, path)
		want := ""
		if sc.Expect != nil {
			want = sc.Expect.Class
		}
		still := crashed && want == "crash"
		for _, c := range classes {
			if c == want {
				still = true
			}
		}
		switch k.Status {
		case "known":
			knownSigs[k.Signature] = true
			if still {
				fmt.Printf("KNOWN-FINDING: property=%s %s\n", p.ID(), k.What)
			} else {
				fmt.Printf("note: known finding %q no longer reproduces\n", k.Signature)
			}
		case "fixed":
			if still {
				fmt.Printf("VIOLATION property=%s replay=%s\n", p.ID(), path)
				violLines = append(violLines, "regression of fixed finding: "+k.What)
				exit = 1
			}
		}
	}

	// Search.
	nw := *workers
	if nw > total {
		nw = total
	}
	if nw < 1 {
		nw = 1
	}
	outs := make([]*workerOut, nw)
	var wg sync.WaitGroup
	trouble := false
	var mu sync.Mutex
	timeout := 25 * time.Minute
	if *tier == "thorough" {
		timeout = 6 * time.Hour
	}
	crashes := make([][]int, nw)
	oomSkips := 0
	for w := 0; w < nw; w++ {
		wg.Add(1)
		go func(w int) {
			defer wg.Done()
			out := filepath.Join(tmp, fmt.Sprintf("w%d.json", w))
			var skips []string
			for attempt := 0; attempt < 6; attempt++ {
				args := []string{"worker", "-prop", p.ID(), "-tier", *tier, "-seed", fmt.Sprint(seed),
					"-from", fmt.Sprint(w), "-to", fmt.Sprint(total), "-stride", fmt.Sprint(nw), "-out", out}
				if attempt > 0 {
					args = append(args, "-resume", "-skip", strings.Join(skips, ","))
				}
				bin := self
				if raceBin != "" && w%raceEvery == raceEvery-1 {
					bin = raceBin
					if p.ID() != "C05" && *tier != "thorough" {
						// quick tier, second configuration: the race build is several
						// times slower, so these workers take a fifth of their share
						for k, a := range args {
							if a == "-to" {
								args[k+1] = fmt.Sprint(total / 5)
							}
						}
					}
				}
				cmd := exec.Command(bin, args...)
				rlog := filepath.Join(tmp, fmt.Sprintf("race-w%d", w))
				cmd.Env = append(os.Environ(), "GOMAXPROCS=1", "STARSIM_RACE_LOG="+rlog,
					"GORACE=halt_on_error=0 exitcode=0 suppress_equal_stacks=0 suppress_equal_addresses=0 log_path="+rlog)
				var stderr strings.Builder
				cmd.Stderr = &tailWriter{sb: &stderr}
				done := make(chan error, 1)
				if err := cmd.Start(); err != nil {
					mu.Lock()
					trouble = true
					mu.Unlock()
					fmt.Fprintln(os.Stderr, "worker start:", err)
					return
				}
				go func() { done <- cmd.Wait() }()
				var werr error
				select {
				case werr = <-done:
				case <-time.After(timeout):
					cmd.Process.Kill()
					mu.Lock()
					trouble = true
					mu.Unlock()
					fmt.Fprintf(os.Stderr, "worker %d: watchdog timeout\n", w)
					return
				}
				if werr == nil {
					break
				}
				// died: the scenario in flight is a candidate violation
				b, _ := os.ReadFile(out + ".progress")
				idx, e2 := strconv.Atoi(strings.TrimSpace(string(b)))
				if e2 != nil {
					mu.Lock()
					trouble = true
					mu.Unlock()
					fmt.Fprintf(os.Stderr, "worker %d died (%v) before its first scenario:\n%s\n", w, werr, stderr.String())
					return
				}
				fmt.Fprintf(os.Stderr, "worker %d died (%v) at scenario %d: %.300s\n", w, werr, idx, stderr.String())
				if es := stderr.String(); strings.Contains(es, "out of memory") || strings.Contains(es, "cannot allocate") || strings.Contains(werr.Error(), "killed") {
					// resource exhaustion is outside every claimed property
					mu.Lock()
					oomSkips++
					mu.Unlock()
				} else {
					crashes[w] = append(crashes[w], idx)
				}
				skips = append(skips, fmt.Sprint(idx))
			}
			b, err := os.ReadFile(out)
			if err != nil {
				mu.Lock()
				trouble = true
				mu.Unlock()
				return
			}
			var wo workerOut
			if json.Unmarshal(b, &wo) != nil {
				mu.Lock()
				trouble = true
				mu.Unlock()
				return
			}
			outs[w] = &wo
		}(w)
	}
	wg.Wait()

	// Merge.
	agg := &workerOut{Counters: map[string]int64{}}
	nontriv := map[uint64]bool{}
	swsigs := map[uint64]bool{}
	pairs := map[uint16]bool{}
	var found []foundViolation
	whitebox := true
	for _, wo := range outs {
		if wo == nil {
			continue
		}
		agg.Runs += wo.Runs
		agg.Invalid += wo.Invalid
		agg.Evals += wo.Evals
		agg.Ticks += wo.Ticks
		agg.Points += wo.Points
		agg.Switches += wo.Switches
		for k, v := range wo.Counters {
			agg.Counters[k] += v
		}
		for _, s := range wo.NontrivSigs {
			nontriv[s] = true
		}
		for _, s := range wo.SwitchSigs {
			swsigs[s] = true
		}
		for _, s := range wo.Pairs {
			pairs[s] = true
		}
		for _, v := range wo.Violations {
			if v.Scenario != nil && v.Scenario.N == nil {
				v.Scenario.N = map[string]int64{}
			}
			found = append(found, v)
		}
		if len(agg.Samples) < 4 {
			agg.Samples = append(agg.Samples, wo.Samples...)
		}
		whitebox = whitebox && wo.Whitebox
	}
	// Race reports written by workers (race build only).
	raceFiles, _ := filepath.Glob(filepath.Join(tmp, "race-w*"))
	raceReports := 0
	for _, rf := range raceFiles {
		b, _ := os.ReadFile(rf)
		raceReports += strings.Count(string(b), "WARNING: DATA RACE")
	}
	if raceReports > 0 {
		agg.Counters["race_reports_outside_scenarios"] += int64(raceReports)
	}

	// Crashed workers: the scenario in flight is a candidate violation.
	ncrash := 0
	for w, idxs := range crashes {
		for _, idx := range idxs {
			ncrash++
			if ncrash <= 3 {
				sc := p.Generate(seed, idx, *tier)
				found = append(found, foundViolation{sc, "crash", fmt.Sprintf("worker %d was killed by a fatal Go error while running this scenario", w)})
			}
		}
		if outs[w] == nil && len(idxs) == 0 {
			trouble = true
		}
	}
	agg.Counters["worker_crashes"] = int64(ncrash)
	agg.Counters["scenarios_skipped_out_of_memory"] = int64(oomSkips)

	// Handle violations: group by class, minimise one per class, confirm in a
	// fresh process.
	sort.SliceStable(found, func(i, j int) bool { return found[i].Class < found[j].Class })
	seenShape := map[string]bool{}
	reported := 0
	historyTries := 0
	for _, fv := range found {
		if fv.Class == "harness-panic" {
			fmt.Fprintf(os.Stderr, "harness panic in scenario %d: %s\n", fv.Scenario.Index, fv.Detail)
			trouble = true
			continue
		}
		shape0 := p.Shape(fv.Scenario, fv.Class)
		if seenShape[shape0] {
			continue
		}
		min := fv.Scenario
		detail := fv.Detail
		bin := self
		if fv.Class == "data-race" && raceBin != "" {
			bin = raceBin
			fv.Scenario.N["race"] = 1
		}
		if fv.Class == "crash" || bin != self {
			var d2 string
			min, d2 = minimiseInChild(bin, p, fv.Scenario, fv.Class, tmp, 90*time.Second)
			if d2 != "" {
				detail = d2
			}
		} else {
			min, detail = minimise(p, fv.Scenario, fv.Class, 40*time.Second)
		}
		shape := p.Shape(min, fv.Class)
		if seenShape[shape] {
			continue
		}
		seenShape[shape] = true
		seenShape[shape0] = true
		if knownSigs[shape] {
			continue // already printed as KNOWN-FINDING
		}
		min.Expect = &Expect{Class: fv.Class, Shape: shape, Detail: detail}
		os.MkdirAll(filepath.Join(verifDir(), "replays"), 0o755)
		path := filepath.Join(verifDir(), "replays", fmt.Sprintf("%s-%d-%016x.json", p.ID(), seed, hashStr(string(min.JSON()))))
		os.WriteFile(path, min.JSON(), 0o644)
		classes, crashed := replayInChild(bin, path)
		if fv.Class == "data-race" {
			// The schedule replays exactly, but the race detector keeps only four
			// accesses per 8-byte word and evicts at random, so a report can be
			// missed on a given run: retry.
			for try := 0; try < 6 && !containsStr(classes, fv.Class); try++ {
				classes, crashed = replayInChild(bin, path)
			}
		}
		ok := crashed && fv.Class == "crash"
		for _, c := range classes {
			if c == fv.Class {
				ok = true
			}
		}
		if !ok && fv.Class != "crash" && fv.Class != "data-race" && historyTries < 3 {
			// Not reproducible alone: does it depend on what earlier scenarios of
			// the same worker left behind in the process? Replay it after them.
			historyTries++
			if hp, hpath := withHistory(p, bin, fv, seed, *tier, nw, tmp); hp != nil {
				min, path, ok = hp, hpath, true
				shape = p.Shape(fv.Scenario, fv.Class) + "/after-earlier-executions"
				if seenShape[shape] {
					continue
				}
				seenShape[shape] = true
				detail += "\n(reproduces only after an earlier execution in the same process: state left behind in the process changes the outcome; the replay file carries that execution as its prelude)"
			}
		}
		if !ok {
			fmt.Fprintf(os.Stderr, "violation %s (scenario %d) did not replay from %s in a fresh process: harness defect\n", fv.Class, fv.Scenario.Index, path)
			trouble = true
			continue
		}
		fmt.Printf("violation class=%s shape=%s\n  %s\n", fv.Class, shape, strings.ReplaceAll(detail, "\n", "\n  "))
		fmt.Printf("VIOLATION property=%s replay=%s\n", p.ID(), path)
		violLines = append(violLines, fv.Class+": "+detail)
		reported++
		exit = 1
		if reported >= 8 {
			break
		}
	}

	wall := time.Since(start).Seconds()
	if !*noEvidence {
		writeEvidence(p, *tier, seed, agg, len(nontriv), len(swsigs), len(pairs), wall, violLines, whitebox, *level, nw)
	}
	fmt.Printf("runs=%d evaluations=%d distinct_nontrivial=%d invalid_drafts=%d sched_points=%d switches=%d interleavings=%d wall=%.1fs\n",
		agg.Runs, agg.Evals, len(nontriv), agg.Invalid, agg.Points, agg.Switches, len(swsigs), wall)
	if trouble && exit == 0 {
		return 2
	}
	return exit
}

func writeEvidence(p Prop, tier string, seed uint64, agg *workerOut, nontriv, swsigs, pairs int, wall float64, viol []string, whitebox bool, note string, workers int) {
	faults := map[string]int64{}
	probes := map[string]int64{}
	other := map[string]int64{}
	for k, v := range agg.Counters {
		switch {
		case strings.HasPrefix(k, "fault_"):
			faults[strings.TrimPrefix(k, "fault_")] = v
		case strings.HasPrefix(k, "probe_"):
			probes[strings.TrimPrefix(k, "probe_")] = v
		default:
			other[k] = v
		}
	}
	var zero []string
	for k, v := range probes {
		if v == 0 {
			zero = append(zero, k)
		}
	}
	sort.Strings(zero)
	samples := make([]any, 0, len(agg.Samples))
	for _, s := range agg.Samples {
		var v any
		json.Unmarshal(s, &v)
		samples = append(samples, v)
	}
	if len(samples) == 0 {
		samples = append(samples, "no non-trivial sample in this run")
	}
	perHour := 0.0
	if wall > 0 {
		perHour = float64(agg.Runs) / wall * 3600
	}
	ev := map[string]any{
		"property_id": p.ID(),
		"tier":        tier,
		"seed":        int64(seed & 0x7fffffffffffffff),
		"level":       p.Level(),
		"coverage": map[string]any{
			"evaluations":                     agg.Evals,
			"distinct_nontrivial":             nontriv,
			"rule":                            p.Rule(),
			"samples":                         samples,
			"simulated_runs":                  agg.Runs,
			"runs_per_hour":                   int64(perHour),
			"seeds":                           fmt.Sprintf("scenario i of the batch uses mix64(VERIF_SEED=%d, i), i in [0,%d)", seed, agg.Runs+agg.Invalid),
			"invalid_drafts_discarded":        agg.Invalid,
			"simulated_ticks":                 agg.Ticks,
			"scheduling_points":               agg.Points,
			"context_switches":                agg.Switches,
			"distinct_interleavings":          swsigs,
			"interleaving_measure":            "distinct hashes of the context-switch sequence (last event kind of the pre-empted task, id of the resumed task)",
			"distinct_cross_task_event_pairs": pairs,
			"faults_fired":                    faults,
			"probes":                          probes,
			"probes_stuck_at_zero":            zero,
			"counters":                        other,
			"components":                      p.Components(),
			"whitebox_oracles_available":      whitebox,
			"worker_processes":                workers,
			"build_note":                      note,
			"exhaustive":                      false,
		},
		"assumptions": []string{
			"sampling, not proof: a clean batch is evidence only for the scenarios explored",
			"Go map iteration order and the production maphash seed cannot be put behind a seam; they are sampled by repetition / fresh processes where the property depends on them",
			"host built-ins (probe, attempt, apply, fault, each, keep, freeze) are simulator stubs; everything under go.starlark.net is the real code built from /repo's working tree with -tags verif",
		},
		"wall_s":     wall,
		"violations": len(viol),
	}
	if len(viol) > 0 {
		ev["violation_details"] = viol
	}
	b, _ := json.MarshalIndent(ev, "", " ")
	os.MkdirAll(filepath.Join(verifDir(), "evidence"), 0o755)
	os.WriteFile(filepath.Join(verifDir(), "evidence", p.ID()+".json"), b, 0o644)
}

func containsStr(xs []string, s string) bool {
	for _, x := range xs {
		if x == s {
			return true
		}
	}
	return false
}

// tailWriter keeps only the first 2 KiB written to it.
type tailWriter struct{ sb *strings.Builder }

func (t *tailWriter) Write(b []byte) (int, error) {
	if t.sb.Len() < 2048 {
		n := 2048 - t.sb.Len()
		if n > len(b) {
			n = len(b)
		}
		t.sb.Write(b[:n])
	}
	return len(b), nil
}

// replayInChild runs "starsim replay --classes path" in a fresh process and
// returns the violation classes it reported.
// withHistory rebuilds the process history in front of a violation that does
// not reproduce alone: the scenarios the same worker ran before it (same seed,
// same stride), as a prelude. If the violation then reproduces in a fresh
// process, the prelude is shrunk (halves, then single scenarios) and the
// scenario-with-prelude is written as the replay file.
func withHistory(p Prop, bin string, fv foundViolation, seed uint64, tier string, nw int, tmp string) (*Scenario, string) {
	idx := fv.Scenario.Index
	var pre []*Scenario
	for j := idx % nw; j < idx; j += nw {
		pre = append(pre, p.Generate(seed, j, tier))
	}
	if len(pre) == 0 {
		return nil, ""
	}
	if len(pre) > 600 {
		pre = pre[len(pre)-600:]
	}
	test := func(pl []*Scenario) bool {
		c := fv.Scenario.Clone()
		c.Prelude = pl
		c.Expect = &Expect{Class: fv.Class}
		f := filepath.Join(tmp, fmt.Sprintf("hist-%d.json", idx))
		os.WriteFile(f, c.JSON(), 0o644)
		classes, _ := replayInChild(bin, f)
		return containsStr(classes, fv.Class)
	}
	if !test(pre) {
		return nil, ""
	}
	// shrink: keep a half while it still reproduces, then try single scenarios
	for len(pre) > 1 {
		h := len(pre) / 2
		if test(pre[h:]) {
			pre = pre[h:]
		} else if test(pre[:h]) {
			pre = pre[:h]
		} else {
			break
		}
	}
	if len(pre) > 1 && len(pre) <= 40 {
		for i := len(pre) - 1; i >= 0 && len(pre) > 1; i-- {
			cand := append(append([]*Scenario{}, pre[:i]...), pre[i+1:]...)
			if test(cand) {
				pre = cand
			}
		}
	}
	out := fv.Scenario.Clone()
	out.Prelude = pre
	out.Expect = &Expect{Class: fv.Class, Shape: p.Shape(fv.Scenario, fv.Class) + "/after-earlier-executions", Detail: fv.Detail}
	os.MkdirAll(filepath.Join(verifDir(), "replays"), 0o755)
	path := filepath.Join(verifDir(), "replays", fmt.Sprintf("%s-%d-%016x.json", p.ID(), seed, hashStr(string(out.JSON()))))
	os.WriteFile(path, out.JSON(), 0o644)
	if classes, _ := replayInChild(bin, path); !containsStr(classes, fv.Class) {
		return nil, ""
	}
	return out, path
}

func replayInChild(self, path string) (classes []string, crashed bool) {
	cmd := exec.Command(self, "replay", "-classes", path)
	rlog := filepath.Join(os.TempDir(), fmt.Sprintf("starsim-race-%d", os.Getpid()))
	cmd.Env = append(os.Environ(), "GOMAXPROCS=1", "STARSIM_RACE_LOG="+rlog,
		"GORACE=halt_on_error=0 exitcode=0 suppress_equal_stacks=0 suppress_equal_addresses=0 log_path="+rlog)
	defer func() {
		if m, _ := filepath.Glob(rlog + ".*"); len(m) > 0 {
			for _, f := range m {
				os.Remove(f)
			}
		}
	}()
	out, err := cmd.Output()
	for _, line := range strings.Split(string(out), "\n") {
		if strings.HasPrefix(line, "CLASS ") {
			classes = append(classes, strings.TrimPrefix(line, "CLASS "))
		}
	}
	if err != nil {
		if ee, ok := err.(*exec.ExitError); ok && ee.ExitCode() != 1 && ee.ExitCode() != 0 {
			crashed = true
		}
	}
	return
}

func cmdReplay(args []string) int {
	fs := flag.NewFlagSet("replay", flag.ExitOnError)
	classesOnly := fs.Bool("classes", false, "print CLASS lines only")
	verbose := fs.Bool("v", false, "verbose")
	fs.Parse(args)
	if fs.NArg() < 1 {
		fmt.Fprintln(os.Stderr, "usage: starsim replay <file>")
		return 2
	}
	path := fs.Arg(0)
	sc, err := LoadScenario(path)
	if err != nil {
		fmt.Fprintln(os.Stderr, err)
		return 2
	}
	p := props[sc.Prop]
	if p == nil {
		fmt.Fprintln(os.Stderr, "unknown property", sc.Prop)
		return 2
	}
	setStackCap(sc.Prop)
	if sc.Expect != nil && strings.HasPrefix(sc.Expect.Class, "nondeterministic:fresh-process") && sc.N != nil && sc.N["fresh"] < 24 {
		// A divergence that depends on the production hash seed shows in a
		// fraction of processes only (it cannot be seeded): sample more of them.
		sc.N["fresh"] = 24
	}
	res := runGuarded(p, sc)
	if *classesOnly {
		for _, c := range res.Classes() {
			fmt.Println("CLASS", c)
		}
		if len(res.Violations) > 0 {
			return 1
		}
		return 0
	}
	fmt.Printf("replay %s: property=%s family=%s fingerprint=%016x\n", path, sc.Prop, sc.Family, res.Fingerprint)
	if *verbose {
		fmt.Println(sc.Source())
	}
	hit := false
	for _, v := range res.Violations {
		fmt.Printf("  %s: %s\n", v.Class, v.Detail)
		if sc.Expect == nil || sc.Expect.Class == v.Class {
			hit = true
		}
	}
	if hit {
		fmt.Printf("VIOLATION property=%s replay=%s\n", sc.Prop, path)
		return 1
	}
	fmt.Println("no violation")
	return 0
}

func cmdGen(args []string) int {
	fs := flag.NewFlagSet("gen", flag.ExitOnError)
	prop := fs.String("prop", "", "property")
	seed := fs.Uint64("seed", 1, "seed")
	idx := fs.Int("i", 0, "index")
	tier := fs.String("tier", "quick", "tier")
	run := fs.Bool("run", false, "also run it")
	fs.Parse(args)
	p := props[*prop]
	if p == nil {
		return 2
	}
	sc := p.Generate(*seed, *idx, *tier)
	fmt.Println(string(sc.JSON()))
	fmt.Println("---- source ----")
	fmt.Println(sc.Source())
	if *run {
		res := p.Run(sc)
		if res.Invalid {
			w := NewWorld(nil, nil)
			pre := w.Predeclared()
			w.addC06Builtins(pre)
			pre["host_list"], pre["host_dict"] = nil, nil
			_, err := Compile(sc.D, "m.star", sc.Source(), pre)
			fmt.Println("static error:", err)
		}
		fmt.Printf("invalid=%v evals=%d nontrivial=%v counters=%v\n", res.Invalid, res.Evals, res.Nontrivial, res.Counters)
		for _, v := range res.Violations {
			fmt.Printf("  %s: %s\n", v.Class, v.Detail)
		}
	}
	return 0
}

// cmdFingerprint prints one line per scenario with its event-log fingerprint
// (used by the determinism self-test: many processes, several GOMAXPROCS).
func cmdFingerprint(args []string) int {
	fs := flag.NewFlagSet("fingerprint", flag.ExitOnError)
	prop := fs.String("prop", "", "property")
	seed := fs.Uint64("seed", 1, "seed")
	n := fs.Int("n", 40, "scenarios")
	fs.Parse(args)
	p := props[*prop]
	if p == nil {
		return 2
	}
	for i := 0; i < *n; i++ {
		sc := p.Generate(*seed, i, "quick")
		res := runGuarded(p, sc)
		var cs []string
		for k, v := range res.Counters {
			cs = append(cs, fmt.Sprintf("%s=%d", k, v))
		}
		sort.Strings(cs)
		fmt.Printf("%s %d %016x %d %d %v sw=%016x pts=%d %s\n", p.ID(), i, res.Fingerprint, res.Evals, len(res.Violations), res.Invalid, res.SwitchSig, res.Points, strings.Join(cs, ","))
	}
	return 0
}

// ---------------------------------------------------------------------------
// minimiser

func hasClass(p Prop, sc *Scenario, class string) (bool, string) {
	res := runGuarded(p, sc)
	if res.Invalid {
		return false, ""
	}
	for _, v := range res.Violations {
		if v.Class == class {
			return true, v.Detail
		}
	}
	return false, ""
}

// minimise shrinks sc while a violation of the same class persists.
func minimise(p Prop, sc *Scenario, class string, budget time.Duration) (*Scenario, string) {
	return minimiseWith(p, sc, budget, func(c *Scenario) (bool, string) { return hasClass(p, c, class) })
}

// minimiseWith shrinks sc while test keeps reporting the violation.
func minimiseWith(p Prop, sc *Scenario, budget time.Duration, test func(*Scenario) (bool, string)) (*Scenario, string) {
	deadline := time.Now().Add(budget)
	cur := sc.Clone()
	ok, detail := test(cur)
	if !ok {
		return sc, "(did not reproduce in the driver)"
	}
	try := func(c *Scenario) bool {
		if time.Now().After(deadline) {
			return false
		}
		if ok, d := test(c); ok {
			cur, detail = c, d
			return true
		}
		return false
	}
	// Replace a generated (PRNG-driven) schedule by the explicit list of
	// decisions it took, so that the schedule itself can be shrunk.
	if cur.Sched.Strategy != "" && cur.Sched.Strategy != "explicit" && cur.Sched.Strategy != "seq" {
		if r0 := runGuarded(p, cur); len(r0.Recorded) > 0 {
			c := cur.Clone()
			c.Sched = sched.Config{Strategy: "explicit", Explicit: r0.Recorded, MaxPoints: cur.Sched.MaxPoints}
			try(c)
		}
	}
	for pass := 0; pass < 6 && time.Now().Before(deadline); pass++ {
		progress := false
		// property-specific candidates
		for again := true; again; {
			again = false
			for _, c := range p.Shrink(cur) {
				if try(c) {
					again, progress = true, true
					break
				}
			}
		}
		// drop program units, big chunks first
		progress = shrinkList(func() int { return len(cur.Prog) }, func(i, n int) *Scenario {
			c := cur.Clone()
			c.Prog = append(append([]string{}, cur.Prog[:i]...), cur.Prog[i+n:]...)
			return c
		}, try) || progress
		for mi := range cur.Mods {
			mi := mi
			progress = shrinkList(func() int { return len(cur.Mods[mi].Units) }, func(i, n int) *Scenario {
				c := cur.Clone()
				c.Mods[mi].Units = append(append([]string{}, cur.Mods[mi].Units[:i]...), cur.Mods[mi].Units[i+n:]...)
				return c
			}, try) || progress
		}
		for ri := range cur.Readers {
			ri := ri
			progress = shrinkList(func() int { return len(cur.Readers[ri]) }, func(i, n int) *Scenario {
				c := cur.Clone()
				c.Readers[ri] = append(append([]string{}, cur.Readers[ri][:i]...), cur.Readers[ri][i+n:]...)
				return c
			}, try) || progress
		}
		// drop single lines inside units
		for ui := 0; ui < len(cur.Prog) && time.Now().Before(deadline); ui++ {
			lines := strings.SplitAfter(cur.Prog[ui], "\n")
			for li := len(lines) - 1; li >= 1; li-- {
				if lines[li] == "" {
					continue
				}
				nl := append(append([]string{}, lines[:li]...), lines[li+1:]...)
				c := cur.Clone()
				c.Prog[ui] = strings.Join(nl, "")
				if try(c) {
					lines = nl
					progress = true
				}
			}
		}
		// schedule: fewer runs
		if len(cur.Sched.Explicit) > 0 {
			progress = shrinkList(func() int { return len(cur.Sched.Explicit) }, func(i, n int) *Scenario {
				c := cur.Clone()
				c.Sched.Explicit = append(append(c.Sched.Explicit[:0:0], cur.Sched.Explicit[:i]...), cur.Sched.Explicit[i+n:]...)
				return c
			}, try) || progress
		}
		// schedule: shorter runs (fewer forced stays on one task)
		for i := 0; i < len(cur.Sched.Explicit) && time.Now().Before(deadline); i++ {
			if n := cur.Sched.Explicit[i].N; n > 1 {
				c := cur.Clone()
				c.Sched.Explicit[i].N = n / 2
				if try(c) {
					progress = true
					i--
				}
			}
		}
		if !progress {
			break
		}
	}
	return cur, detail
}

// shrinkList tries to delete chunks of decreasing size from a list.
func shrinkList(length func() int, without func(i, n int) *Scenario, try func(*Scenario) bool) bool {
	progress := false
	for chunk := length() / 2; chunk >= 1; chunk /= 2 {
		for i := 0; i+chunk <= length(); {
			if try(without(i, chunk)) {
				progress = true
			} else {
				i += chunk
			}
		}
	}
	return progress
}

// minimiseInChild shrinks a scenario whose violation can only be observed in a
// child process (a crash, or a race report that needs the -race binary).
func minimiseInChild(bin string, p Prop, sc *Scenario, class string, tmp string, budget time.Duration) (*Scenario, string) {
	path := filepath.Join(tmp, "candidate.json")
	return minimiseWith(p, sc, budget, func(c *Scenario) (bool, string) {
		os.WriteFile(path, c.JSON(), 0o644)
		tries := 1
		if class == "data-race" {
			tries = 3
		}
		for t := 0; t < tries; t++ {
			classes, crashed := replayInChild(bin, path)
			if class == "crash" {
				return crashed, "the process was killed by a fatal Go error"
			}
			if containsStr(classes, class) {
				return true, ""
			}
		}
		return false, ""
	})
}
