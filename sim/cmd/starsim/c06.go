package main

import (
	"runtime/debug"
	"fmt"
	"math"
	"sort"
	"strings"
	"sync"

	"go.starlark.net/starlark"
	"go.starlark.net/syntax"
)

// C06 — mutation during iteration fails, and locks and thread state are
// always restored.
//
// One scenario = one generated program in which collections registered with
// keep() are iterated by several constructs, mutators are attempted from
// inside the iteration (must_fail), after an inner loop (must_fail) and right
// after the outermost loop (must_ok), and the construct is left through a
// chosen exit. The check then ENUMERATES faults for that program: a step
// limit at every N <= S, and an error / a panic / a Cancel at every host
// built-in call k <= B; after every run all kept collections, the thread's
// stack depth and the thread itself are interrogated.

type c06 struct{}

func init() { register(c06{}) }

func (c06) ID() string    { return "C06" }
func (c06) Level() string { return "fault_enumeration" }
func (c06) Rule() string {
	return "generated programs over {list,dict,set} x iterating constructs (for, nested for over the same collection, comprehensions, *args, unpacking, discovered iterating built-ins and methods, Go push iterators) x discovered mutators x exits (exhaustion, break, continue, return, dynamic error, error in nested call); per program every step limit N<=S and an injected error, panic and Cancel at every host built-in call k<=B are enumerated. A case is one (program, fault) execution; distinct = distinct (program hash, fault kind, fault point); non-trivial = the fault fired while at least one iterator was open or the run exercised a must_fail/must_ok clause"
}
func (c06) Components() map[string]string {
	return map[string]string{
		"syntax/resolve/compile/VM/library/iterators":                         "real",
		"mutator and iterating-built-in catalogues":                           "discovered at start-up by calling every attribute / universe function on samples",
		"host built-ins keep/must_fail/must_ok/may/attempt/fault/each/eachkv": "stub (simulator)",
		"itercount reads": "reflect (white-box, read-only) + neutral mutation through the Go API (black-box)",
	}
}
func (c06) Budget(tier string) int {
	if tier == "thorough" {
		return 40000
	}
	return 600
}

// ---------------------------------------------------------------------------
// catalogues (discovered, not listed)

type mutatorDef struct {
	Name  string
	Def   string
	Group string // method / syntactic form / Go method: variants of one group differ in argument shape
	Type string // list, dict, set
}

type iterTemplate struct {
	Expr string // contains %s for the collection
	Name string
}

var (
	catOnce   sync.Once
	mutators  map[string][]mutatorDef
	iterTmpls []iterTemplate
	cbTmpls   []iterTemplate // templates with a key= callback; second %s is the callback
)

type simIterable struct{ n *int }

func (s simIterable) String() string        { return "simiter" }
func (s simIterable) Type() string          { return "simiter" }
func (s simIterable) Freeze()               {}
func (s simIterable) Truth() starlark.Bool  { return true }
func (s simIterable) Hash() (uint32, error) { return 0, fmt.Errorf("unhashable: simiter") }
func (s simIterable) Iterate() starlark.Iterator {
	*s.n++
	return &simIter{}
}

type simIter struct{ i int }

func (it *simIter) Next(p *starlark.Value) bool {
	if it.i < 3 {
		it.i++
		*p = starlark.MakeInt(it.i)
		return true
	}
	return false
}
func (it *simIter) Done() {}

var allOn = Dialect{Set: true, While: true, TopLevelControl: true, GlobalReassign: true, Recursion: true}

func evalQuiet(src string, env starlark.StringDict) (v starlark.Value, err error) {
	defer func() {
		if r := recover(); r != nil {
			err = fmt.Errorf("panic: %v", r)
		}
	}()
	th := &starlark.Thread{Name: "discover"}
	th.SetMaxExecutionSteps(100000)
	return starlark.EvalOptions(allOn.FileOptions(), th, "discover", src, env)
}

func discoverCatalogues() {
	mutators = map[string][]mutatorDef{}
	samples := map[string]string{"list": "[1, 2, 3]", "dict": "{\"a\": 1, \"b\": 2}", "set": "set([1, 2, 3])"}
	// argument shapes: every shape that makes the method change the sample
	// becomes a mutator of its own (a fast path chosen by argument type —
	// another set, a dict, a tuple, a range, the receiver itself — must be
	// covered as well as the common list form)
	argPool := []string{"", "7", "0, 7", "[8, 9]", "\"a\"", "\"zz\", 5", "{\"zz\": 3}", "[(\"zz\", 4)]", "1", "set([1, 42])", "0", "[1]", "zz=9",
		"(8, 9)", "range(40, 43)", "set([41, 42]), [43]", "{\"zz\": 3}, yy=4", "((\"zz\", 4),)", "{\"zz\": 3}.items()", "[8], [9]", "c", "list(c) + [50]", "-1", "1, 99", "-1, 99", "\"b\", 9", "\"b\"", "2", "3"}
	for _, typ := range []string{"list", "dict", "set"} {
		fresh := func() starlark.Value { v, _ := evalQuiet(samples[typ], nil); return v }
		names := fresh().(starlark.HasAttrs).AttrNames()
		for _, name := range names {
			found := 0
			for ai, args := range argPool {
				c := fresh()
				before := Canon(c)
				_, err := evalQuiet(fmt.Sprintf("c.%s(%s)", name, args), starlark.StringDict{"c": c})
				if err == nil && Canon(c) != before {
					mutators[typ] = append(mutators[typ], mutatorDef{
						Name: fmt.Sprintf("m_%s_%s_%d", typ, name, ai), Group: name,
						Def:  fmt.Sprintf("def m_%s_%s_%d(c):\n    c.%s(%s)\n", typ, name, ai, name, args),
						Type: typ,
					})
					found++
					if found == 9 {
						break
					}
				}
			}
		}
		// syntactic mutations
		var syn []string
		switch typ {
		case "list":
			syn = []string{"c[0] = 77", "c += [5]", "c[-1] = c[0]"}
		case "dict":
			syn = []string{"c[\"a\"] = 77", "c[\"fresh\"] = 1", "c |= {\"zz\": 1}"}
		case "set":
			syn = []string{"c |= set([99])"}
		}
		for i, s := range syn {
			mutators[typ] = append(mutators[typ], mutatorDef{Name: fmt.Sprintf("m_%s_syn%d", typ, i), Group: fmt.Sprintf("syn%d", i), Def: fmt.Sprintf("def m_%s_syn%d(c):\n    %s\n", typ, i, s), Type: typ})
		}
		// Go API
		for i, op := range GoMutators(fresh()) {
			mutators[typ] = append(mutators[typ], mutatorDef{Name: fmt.Sprintf("m_%s_go%d", typ, i), Group: "go:" + op, Def: fmt.Sprintf("def m_%s_go%d(c):\n    gomutate(c, %q, \"a\", 5)\n", typ, i, op), Type: typ})
		}
	}
	// iterating built-ins and methods
	try := func(expr string, name string) {
		n := 0
		x := simIterable{&n}
		evalQuiet(fmt.Sprintf(expr, "X", "X"), starlark.StringDict{"X": x})
		if n > 0 {
			iterTmpls = append(iterTmpls, iterTemplate{Expr: expr, Name: name})
		}
	}
	for _, name := range starlark.Universe.Keys() {
		if _, ok := starlark.Universe[name].(*starlark.Builtin); !ok || name == "print" || name == "fail" {
			continue
		}
		try(name+"(%[1]s)", name)
		try(name+"(%[1]s, %[1]s)", name+"2")
		try(name+"([1], %[1]s)", name+"b")
		// call-back forms
		n, called := 0, 0
		x := simIterable{&n}
		cb := starlark.NewBuiltin("cb", func(*starlark.Thread, *starlark.Builtin, starlark.Tuple, []starlark.Tuple) (starlark.Value, error) {
			called++
			return starlark.MakeInt(called), nil
		})
		evalQuiet(name+"(X, key=cb)", starlark.StringDict{"X": x, "cb": cb})
		if n > 0 && called > 0 {
			cbTmpls = append(cbTmpls, iterTemplate{Expr: name + "(%[1]s, key=%[2]s)", Name: name + "-key"})
		}
	}
	recvs := []string{"\"-\"", "b\"-\"", "[1]", "{\"q\": 1}", "set([1])", "(1,)"}
	for _, rs := range recvs {
		rv, err := evalQuiet(rs, nil)
		if err != nil {
			continue
		}
		ha, ok := rv.(starlark.HasAttrs)
		if !ok {
			continue
		}
		for _, m := range ha.AttrNames() {
			try(rs+"."+m+"(%[1]s)", rv.Type()+"."+m)
			try(rs+"."+m+"(%[1]s, %[1]s)", rv.Type()+"."+m+"2")
		}
	}
	// library modules' functions that iterate (json.encode walks lists, dicts,
	// tuples and structs; an unencodable element ends the walk in mid-iteration)
	for _, e := range []string{"json.encode(%[1]s)", "json.encode([%[1]s, %[1]s])", "json.encode({\"k\": %[1]s})", "json.encode(struct(f=%[1]s, g=len))", "json.indent(json.encode(%[1]s))", "struct(f=%[1]s) == struct(f=%[1]s)", "str(struct(f=%[1]s))", "%[1]s == %[1]s", "[%[1]s] < [%[1]s]", "repr(%[1]s)", "\"%%s\" %% (%[1]s,)", "\"{}\".format(%[1]s)", "hash((1, 2)) + len(%[1]s)"} {
		iterTmpls = append(iterTmpls, iterTemplate{Expr: e, Name: "lib"})
	}
	// operators that iterate
	for _, e := range []string{"set([1]) | set(%[1]s)", "set(%[1]s) <= set([1, 2, 3])", "[0] + list(%[1]s)", "%[1]s in [%[1]s]"} {
		iterTmpls = append(iterTmpls, iterTemplate{Expr: e, Name: "op"})
	}
	sort.SliceStable(iterTmpls, func(i, j int) bool { return iterTmpls[i].Expr < iterTmpls[j].Expr })
}

func catalogues() { catOnce.Do(discoverCatalogues) }

// ---------------------------------------------------------------------------
// host built-ins specific to C06 (oracle clauses evaluated inside the run)

func shallowCopy(v starlark.Value) starlark.Value {
	switch x := v.(type) {
	case *starlark.List:
		el := make([]starlark.Value, x.Len())
		for i := range el {
			el[i] = x.Index(i)
		}
		return starlark.NewList(el)
	case *starlark.Dict:
		d := starlark.NewDict(x.Len())
		for _, kv := range x.Items() {
			d.SetKey(kv[0], kv[1])
		}
		return d
	case *starlark.Set:
		s := starlark.NewSet(x.Len())
		for _, k := range setElems(x) {
			s.Insert(k)
		}
		return s
	}
	return v
}

func isCancelMsg(err error) bool {
	return err != nil && strings.Contains(err.Error(), "Starlark computation cancelled")
}

func isInjected(err error) bool {
	return err != nil && strings.Contains(err.Error(), "injected host error")
}

func (w *World) addC06Builtins(env starlark.StringDict) {
	// must_fail(m, C): m(C) must fail if m would change a copy; C must not change.
	env["must_fail"] = w.wrap("must_fail", func(c *TaskCtx, th *starlark.Thread, b *starlark.Builtin, args starlark.Tuple, kwargs []starlark.Tuple) (starlark.Value, error) {
		if len(args) != 2 {
			return nil, fmt.Errorf("must_fail: want (mutator, collection)")
		}
		cp := shallowCopy(args[1])
		cpBefore := Canon(cp)
		_, errc := starlark.Call(th, args[0], starlark.Tuple{cp}, nil)
		if isCancelMsg(errc) || isInjected(errc) {
			return nil, errc
		}
		would := errc == nil && Canon(cp) != cpBefore
		before := Canon(args[1])
		_, err := starlark.Call(th, args[0], starlark.Tuple{args[1]}, nil)
		if isCancelMsg(err) || isInjected(err) {
			return nil, err
		}
		after := Canon(args[1])
		c.Probes["must_fail_clauses"]++
		if after != before {
			c.HostViol = append(c.HostViol, Violation{"changed-during-iteration", fmt.Sprintf("%s changed a %s while it was being iterated: %s -> %s (error: %v)", args[0], args[1].Type(), before, after, err)})
		} else if would && err == nil {
			c.HostViol = append(c.HostViol, Violation{"mutation-during-iteration-succeeded", fmt.Sprintf("%s on an iterated %s returned no error", args[0], args[1].Type())})
		}
		if err != nil {
			c.record("must_fail:err")
		} else {
			c.record("must_fail:noop")
		}
		return starlark.None, nil
	})
	// must_ok(m, C): right after the outermost loop m(C) must succeed if m succeeds on a copy.
	env["must_ok"] = w.wrap("must_ok", func(c *TaskCtx, th *starlark.Thread, b *starlark.Builtin, args starlark.Tuple, kwargs []starlark.Tuple) (starlark.Value, error) {
		if len(args) != 2 {
			return nil, fmt.Errorf("must_ok: want (mutator, collection)")
		}
		cp := shallowCopy(args[1])
		_, errc := starlark.Call(th, args[0], starlark.Tuple{cp}, nil)
		if isCancelMsg(errc) || isInjected(errc) {
			return nil, errc
		}
		_, err := starlark.Call(th, args[0], starlark.Tuple{args[1]}, nil)
		if isCancelMsg(err) || isInjected(err) {
			return nil, err
		}
		c.Probes["must_ok_clauses"]++
		if errc == nil && err != nil {
			c.HostViol = append(c.HostViol, Violation{"still-locked-after-iteration", fmt.Sprintf("%s on a %s after its iteration had ended: %v", args[0], args[1].Type(), err)})
		}
		c.record("must_ok")
		return starlark.None, nil
	})
	// may(m, C): whatever happens, a failed mutation leaves C unchanged.
	env["may"] = w.wrap("may", func(c *TaskCtx, th *starlark.Thread, b *starlark.Builtin, args starlark.Tuple, kwargs []starlark.Tuple) (starlark.Value, error) {
		if len(args) != 2 {
			return nil, fmt.Errorf("may: want (mutator, collection)")
		}
		before := Canon(args[1])
		_, err := starlark.Call(th, args[0], starlark.Tuple{args[1]}, nil)
		if isCancelMsg(err) || isInjected(err) {
			return nil, err
		}
		if err != nil && Canon(args[1]) != before {
			c.HostViol = append(c.HostViol, Violation{"failed-mutation-changed-collection", fmt.Sprintf("%s failed (%v) yet changed the %s: %s -> %s", args[0], err, args[1].Type(), before, Canon(args[1]))})
		}
		c.Probes["may_clauses"]++
		return starlark.MakeInt(0), nil
	})
}

// ---------------------------------------------------------------------------
// generator

type c06gen struct {
	r     *Rng
	d     Dialect
	defs  map[string]string
	order []string
	body  []string
	n     int
	colls []c06coll
	tags  []string
}

type c06coll struct {
	name string
	typ  string
	lit  string
	n    int // number of elements
}

func (g *c06gen) fresh(p string) string { g.n++; return fmt.Sprintf("%s%d", p, g.n) }

func (g *c06gen) need(m mutatorDef) string {
	if _, ok := g.defs[m.Name]; !ok {
		g.defs[m.Name] = m.Def
		g.order = append(g.order, m.Name)
	}
	return m.Name
}

func (g *c06gen) addDef(name, def string) {
	if _, ok := g.defs[name]; !ok {
		g.defs[name] = def
		g.order = append(g.order, name)
	}
}

func (g *c06gen) mut(c c06coll) string {
	return g.need(pickMutator(g.r, c.typ))
}

// mutatorGroups lists the groups of a type's catalogue in first-seen order.
func mutatorGroups(typ string) [][]mutatorDef {
	var order []string
	by := map[string][]mutatorDef{}
	for _, m := range mutators[typ] {
		if _, ok := by[m.Group]; !ok {
			order = append(order, m.Group)
		}
		by[m.Group] = append(by[m.Group], m)
	}
	out := make([][]mutatorDef, 0, len(order))
	for _, k := range order {
		out = append(out, by[k])
	}
	return out
}

// pickMutator draws a group uniformly, then an argument-shape variant.
func pickMutator(r *Rng, typ string) mutatorDef {
	gs := mutatorGroups(typ)
	g := gs[r.Intn(len(gs))]
	return g[r.Intn(len(g))]
}

func (g *c06gen) emit(ind int, format string, args ...any) {
	g.body = append(g.body, strings.Repeat("    ", ind)+fmt.Sprintf(format, args...)+"\n")
}

func (g *c06gen) newColl() c06coll {
	typs := []string{"list", "dict"}
	if g.d.Set {
		typs = append(typs, "set")
	}
	c := c06coll{name: g.fresh("C"), typ: typs[g.r.Intn(len(typs))]}
	if g.r.Chance(1, 14) {
		// a large collection: constructs that consume it in one instruction
		// (*args, unpacking, built-ins) then do many element steps inside it
		c.n = g.r.Pick3(64, 130, 200)
		switch c.typ {
		case "list":
			c.lit = fmt.Sprintf("list(range(1, %d))", c.n+1)
		case "dict":
			c.lit = fmt.Sprintf("dict([(\"a\", 1)] + [(q, q) for q in range(%d)])", c.n-1)
		case "set":
			c.lit = fmt.Sprintf("set(range(1, %d))", c.n+1)
		}
		g.emit(1, "%s = keep(%s, %q)", c.name, c.lit, c.name)
		g.colls = append(g.colls, c)
		return c
	}
	c.n = g.r.Pick3(0, 1, g.r.Range(2, 4))
	var el []string
	for i := 0; i < c.n; i++ {
		switch c.typ {
		case "list":
			if g.r.Chance(1, 4) {
				// elements that are themselves collections of assorted lengths:
				// built-ins that iterate over each element (dict, zip, update…)
				// open a second level of iterators
				el = append(el, g.r.Pick([]string{"\"s\"", "(1, 2)", "[7]", "None", "[1, 2, 3]", "[4, 5]", "{\"q\": 1}", "[]", "(1, 2, 3)", "{\"x\": 1, \"y\": 2}"}))
			} else {
				el = append(el, fmt.Sprint(i+1))
			}
		case "dict":
			el = append(el, fmt.Sprintf("%q: %d", string(rune('a'+i)), i+1))
		case "set":
			el = append(el, fmt.Sprint(i+1))
		}
	}
	switch c.typ {
	case "list":
		c.lit = "[" + strings.Join(el, ", ") + "]"
	case "dict":
		c.lit = "{" + strings.Join(el, ", ") + "}"
	case "set":
		c.lit = "set([" + strings.Join(el, ", ") + "])"
	}
	g.emit(1, "%s = keep(%s, %q)", c.name, c.lit, c.name)
	g.colls = append(g.colls, c)
	return c
}

// richColl makes a kept list (or dict) whose elements are kept collections.
func (g *c06gen) richColl() c06coll {
	pool := []string{"[1, 2]", "(\"k\", 1)", "[7]", "[1, 2, 3]", "[]", "{\"q\": 1}", "{\"x\": 1, \"y\": 2}", "\"ab\"", "5", "(1, 2, 3)", "[\"p\", \"q\"]", "len", "{\"f\": len}", "[1, len]", "{1: 2}"}
	if g.d.Set {
		pool = append(pool, "set([1, 2])", "set([3])")
	}
	n := g.r.Range(1, 3)
	var el []string
	for i := 0; i < n; i++ {
		e := pool[g.r.Intn(len(pool))]
		if strings.HasPrefix(e, "[") || strings.HasPrefix(e, "{") || strings.HasPrefix(e, "set(") {
			name := g.fresh("E")
			g.emit(1, "%s = keep(%s, %q)", name, e, name)
			e = name
		}
		el = append(el, e)
	}
	c := c06coll{name: g.fresh("C"), typ: "list", n: n}
	c.lit = "[" + strings.Join(el, ", ") + "]"
	g.emit(1, "%s = keep(%s, %q)", c.name, c.lit, c.name)
	g.colls = append(g.colls, c)
	return c
}

// exitStmt emits the statement that leaves the construct early.
func (g *c06gen) exitStmt(ind int, inFuncReturn bool) string {
	g.addDef("boom", "def boom(x):\n    return [1][x + 5]\n")
	g.addDef("deep", "def deep(x):\n    return boom(x) + 1\n")
	choices := []string{"break", "continue", "1 // 0", "deep(1)", "fault(\"x\")", "fail(\"stop\")", "pass"}
	if inFuncReturn {
		choices = append(choices, "return 5", "return 5")
	}
	return choices[g.r.Intn(len(choices))]
}

// deepNest emits one function whose frame holds a nest of 1-8 simultaneously
// active iterations — for statements outside, comprehension clauses (possibly
// several per comprehension, possibly a comprehension inside a comprehension)
// inside — over 1-3 collections, some of them iterated at several levels. At
// every level the collections being iterated must refuse mutation; a collection
// whose (only) iteration has just ended must accept it again; the nest is left
// from a random level by break, continue, return, a dynamic error, an injected
// host error/panic/cancel or the enumerated step limit.
func (g *c06gen) deepNest() {
	nc := g.r.Range(1, 3)
	var actual []c06coll
	for i := 0; i < nc; i++ {
		if len(g.colls) > 0 && g.r.Chance(1, 3) {
			actual = append(actual, g.colls[g.r.Intn(len(g.colls))])
		} else {
			c := g.newColl()
			if c.n == 0 && g.r.Chance(3, 4) {
				c = g.newColl()
			}
			actual = append(actual, c)
		}
	}
	g.addDef("boom", "def boom(x):\n    return [1][x + 5]\n")
	g.addDef("tick", "def tick(n):\n    n[0] += 1\n    return n[0]\n")
	depth := g.r.Pick3(g.r.Range(1, 3), g.r.Range(3, 5), g.r.Range(5, 8))
	nfor := g.r.Intn(depth + 1) // outer levels that are for statements; the rest are comprehension clauses
	if g.r.Chance(1, 4) {
		nfor = depth
	}
	fn := g.fresh("nest")
	var params []string
	for i := range actual {
		params = append(params, fmt.Sprintf("c%d", i))
	}
	same := func(i, j int) bool { return actual[i].name == actual[j].name }
	isActive := func(active []int, i int) bool {
		for _, a := range active {
			if same(a, i) {
				return true
			}
		}
		return false
	}
	var b strings.Builder
	fmt.Fprintf(&b, "def %s(%s):\n    n = [0]\n", fn, strings.Join(params, ", "))
	ind := func(k int) string { return strings.Repeat("    ", k) }
	checks := func(active []int) []string { // must_fail calls for (a sample of) the active collections
		var out []string
		for _, a := range active {
			if g.r.Chance(2, 3) {
				out = append(out, fmt.Sprintf("must_fail(%s, c%d)", g.mut(actual[a]), a))
			}
		}
		return out
	}
	// comprehension over levels [lvl, depth): returns an expression
	var comp func(lvl int, active []int) string
	comp = func(lvl int, active []int) string {
		k := g.r.Range(1, depth-lvl) // clauses in this comprehension
		var clauses []string
		act := append([]int{}, active...)
		for j := 0; j < k; j++ {
			ci := g.r.Intn(len(actual))
			clauses = append(clauses, fmt.Sprintf("for v%d in c%d", lvl+j, ci))
			act = append(act, ci)
			if g.r.Chance(1, 4) {
				switch g.r.Intn(4) {
				case 0:
					clauses = append(clauses, fmt.Sprintf("if tick(n) != %d or boom(0)", g.r.Range(1, 9)))
				case 1:
					clauses = append(clauses, fmt.Sprintf("if tick(n) != %d or fault(\"n\")", g.r.Range(1, 9)))
				case 2:
					clauses = append(clauses, fmt.Sprintf("if must_fail(%s, c%d) == None", g.mut(actual[ci]), ci))
				default:
					clauses = append(clauses, fmt.Sprintf("if tick(n) %% %d != 0", g.r.Range(2, 4)))
				}
			}
		}
		elems := checks(act)
		if lvl+k < depth {
			elems = append(elems, comp(lvl+k, act))
		}
		if len(elems) == 0 {
			elems = append(elems, "tick(n)")
		}
		elem := "(" + strings.Join(elems, ", ") + ",)"
		if g.r.Chance(1, 4) {
			return fmt.Sprintf("{tick(n): %s %s}", elem, strings.Join(clauses, " "))
		}
		return fmt.Sprintf("[%s %s]", elem, strings.Join(clauses, " "))
	}
	var level func(lvl int, active []int)
	level = func(lvl int, active []int) {
		in := lvl + 1
		if lvl >= depth {
			fmt.Fprintf(&b, "%stick(n)\n", ind(in))
			return
		}
		if lvl >= nfor {
			fmt.Fprintf(&b, "%sr%d = %s\n", ind(in), lvl, comp(lvl, active))
			return
		}
		ci := g.r.Intn(len(actual))
		act := append(append([]int{}, active...), ci)
		fmt.Fprintf(&b, "%sfor x%d in c%d:\n", ind(in), lvl, ci)
		for _, c := range checks(act) {
			fmt.Fprintf(&b, "%s%s\n", ind(in+1), c)
		}
		if g.r.Chance(1, 2) {
			fmt.Fprintf(&b, "%sif tick(n) == %d:\n%s%s\n", ind(in+1), g.r.Range(1, 8), ind(in+2), g.exitStmt(in+2, true))
		}
		level(lvl+1, act)
		// after the inner levels: what they iterated (and nothing outside does) is mutable again
		for j := range actual {
			if !isActive(act, j) && g.r.Chance(1, 2) {
				fmt.Fprintf(&b, "%smust_ok(%s, c%d)\n", ind(in+1), g.mut(actual[j]), j)
			}
		}
		for _, c := range checks(act) {
			fmt.Fprintf(&b, "%s%s\n", ind(in+1), c)
		}
		if g.r.Chance(1, 3) {
			fmt.Fprintf(&b, "%sif tick(n) == %d:\n%s%s\n", ind(in+1), g.r.Range(2, 20), ind(in+2), g.exitStmt(in+2, true))
		}
		if !isActive(active, ci) {
			// emitted after the loop, at the enclosing level
			defer func() { fmt.Fprintf(&b, "%smust_ok(%s, c%d)\n", ind(in), g.mut(actual[ci]), ci) }()
		}
	}
	level(0, nil)
	if g.r.Bool() {
		fmt.Fprintf(&b, "    return n[0]\n")
	} else {
		// the statement after the outermost loop is a return whose expression mutates
		fmt.Fprintf(&b, "    return must_ok(%s, c0)\n", g.mut(actual[0]))
	}
	g.addDef(fn, b.String())
	var args []string
	for _, c := range actual {
		args = append(args, c.name)
	}
	g.emit(1, "attempt(%s, %s)", fn, strings.Join(args, ", "))
	for _, c := range actual {
		g.emit(1, "must_ok(%s, %s)", g.mut(c), c.name)
	}
	g.tags = append(g.tags, fmt.Sprintf("deep-nest:%d", depth))
}

func (g *c06gen) deepRecursion() {
	c := g.newColl()
	if c.n == 0 {
		c = g.newColl()
	}
	g.addDef("boom", "def boom(x):\n    return [1][x + 5]\n")
	stop := g.r.Pick([]string{"", "", "", "        if n == %d:\n            boom(0)\n", "        if n == %d:\n            fault(\"deep\")\n", "        if n == %d:\n            return n\n"})
	if stop != "" {
		stop = fmt.Sprintf(stop, g.r.Pick3(g.r.Range(1, 50), g.r.Range(1000, 20000), g.r.Range(90000, 99990)))
	}
	fn := g.fresh("rec")
	var b strings.Builder
	fmt.Fprintf(&b, "def %s(n, c):\n    for x in c:\n", fn)
	if g.r.Chance(1, 3) {
		fmt.Fprintf(&b, "        if n %% 25000 == 7:\n            must_fail(%s, c)\n", g.mut(c))
	} else if g.r.Chance(1, 2) {
		// exactly 2^16 (and 2^15, 2^8) iterators live on the one collection
		fmt.Fprintf(&b, "        if n == 65535 or n == 32767 or n == 255:\n            must_fail(%s, c)\n", g.mut(c))
	}
	b.WriteString(stop)
	fmt.Fprintf(&b, "        return %s(n + 1, c) + 1\n    return n\n", fn)
	g.addDef(fn, b.String())
	g.emit(1, "attempt(%s, 0, %s)", fn, c.name)
	g.emit(1, "must_ok(%s, %s)", g.mut(c), c.name)
	g.tags = append(g.tags, "deep-recursion")
}

func (g *c06gen) construct() {
	if g.r.Chance(1, 5) {
		g.deepNest()
		return
	}
	var c c06coll
	if len(g.colls) == 0 || g.r.Chance(1, 3) {
		c = g.newColl()
	} else {
		c = g.colls[g.r.Intn(len(g.colls))]
	}
	switch k := g.r.Intn(15); k {
	case 0, 1, 2: // for loop (possibly nested over the same collection), run inside a helper so that return is possible
		fn := g.fresh("loop")
		var b strings.Builder
		fmt.Fprintf(&b, "def %s(c):\n    n = 0\n    for x in c:\n        n += 1\n        must_fail(%s, c)\n", fn, g.mut(c))
		nested := g.r.Chance(1, 2)
		if nested {
			fmt.Fprintf(&b, "        for y in c:\n            must_fail(%s, c)\n", g.mut(c))
			if g.r.Bool() {
				fmt.Fprintf(&b, "            if n == %d:\n                %s\n", g.r.Range(1, 3), g.exitStmt(4, true))
			}
			fmt.Fprintf(&b, "        must_fail(%s, c)\n", g.mut(c))
			g.tags = append(g.tags, "nested-for")
		} else {
			g.tags = append(g.tags, "for")
		}
		if g.r.Chance(3, 4) {
			fmt.Fprintf(&b, "        if n == %d:\n            %s\n", g.r.Range(1, 3), g.exitStmt(3, true))
		}
		if g.r.Bool() {
			// the mutation IS the return expression, directly after the loop
			fmt.Fprintf(&b, "    return must_ok(%s, c)\n", g.mut(c))
		} else {
			fmt.Fprintf(&b, "    must_ok(%s, c)\n    return n\n", g.mut(c))
		}
		g.addDef(fn, b.String())
		g.emit(1, "attempt(%s, %s)", fn, c.name)
		g.emit(1, "must_ok(%s, %s)", g.mut(c), c.name)
	case 3, 4: // comprehension
		fn := g.fresh("comp")
		var b strings.Builder
		fmt.Fprintf(&b, "def %s(c):\n", fn)
		g.addDef("boom", "def boom(x):\n    return [1][x + 5]\n")
		tail := g.r.Pick([]string{"", "", " if must_fail(%s, c) == None", " if boom(0) == 0", " if fault(\"c\") == None"})
		if strings.Contains(tail, "%s") {
			tail = fmt.Sprintf(tail, g.mut(c))
		}
		switch g.r.Intn(4) {
		case 0:
			fmt.Fprintf(&b, "    r = [must_fail(%s, c) for x in c%s]\n", g.mut(c), tail)
		case 1:
			fmt.Fprintf(&b, "    r = {repr(x): must_fail(%s, c) for x in c%s}\n", g.mut(c), tail)
		case 2:
			fmt.Fprintf(&b, "    r = [must_fail(%s, c) for x in c for y in c%s]\n", g.mut(c), tail)
		default:
			fmt.Fprintf(&b, "    r = [[must_fail(%s, c) for y in c] + [must_fail(%s, c)] for x in c%s]\n", g.mut(c), g.mut(c), tail)
		}
		fmt.Fprintf(&b, "    must_ok(%s, c)\n    return r\n", g.mut(c))
		g.addDef(fn, b.String())
		g.emit(1, "attempt(%s, %s)", fn, c.name)
		g.emit(1, "must_ok(%s, %s)", g.mut(c), c.name)
		g.tags = append(g.tags, "comprehension")
	case 5: // *args
		want := g.r.Range(0, 4)
		fn := g.fresh("va")
		ps := []string{}
		for i := 0; i < want; i++ {
			ps = append(ps, fmt.Sprintf("p%d", i))
		}
		if g.r.Bool() || c.n > 10 {
			ps = append(ps, "*rest")
		}
		g.addDef(fn, fmt.Sprintf("def %s(%s):\n    return 1\n", fn, strings.Join(ps, ", ")))
		g.emit(1, "attempt(lambda: %s(*%s))", fn, c.name)
		g.emit(1, "must_ok(%s, %s)", g.mut(c), c.name)
		g.tags = append(g.tags, "star-args")
	case 6, 7: // unpacking assignment
		want := g.r.Range(1, 4)
		fn := g.fresh("unpack")
		var lhs []string
		for i := 0; i < want; i++ {
			lhs = append(lhs, fmt.Sprintf("u%d", i))
		}
		target := strings.Join(lhs, ", ")
		if want == 1 {
			target = "[u0]"
		}
		switch g.r.Intn(3) {
		case 0:
			g.addDef(fn, fmt.Sprintf("def %s(c):\n    %s = c\n    return u0\n", fn, target))
		case 1:
			g.addDef(fn, fmt.Sprintf("def %s(c):\n    for %s in [c]:\n        pass\n    return 0\n", fn, target))
		default:
			g.addDef(fn, fmt.Sprintf("def %s(c):\n    [w, (%s)] = [0, c]\n    return w\n", fn, strings.Join(lhs, ", ")+","))
		}
		g.emit(1, "attempt(%s, %s)", fn, c.name)
		g.emit(1, "must_ok(%s, %s)", g.mut(c), c.name)
		g.tags = append(g.tags, "unpack")
	case 8, 9, 12, 13, 14: // iterating built-in or method
		t := iterTmpls[g.r.Intn(len(iterTmpls))]
		if g.r.Chance(2, 3) {
			// a fresh collection whose elements are themselves collections of
			// assorted lengths (pairs, non-pairs, empties): built-ins that
			// iterate over each element open a second level of iterators
			c = g.richColl()
		}
		if g.r.Chance(1, 2) {
			// in one frame: the iterating expression (or statement), then at once a
			// mutation of the same collection — the iteration is over, whatever the
			// frame still holds
			fn := g.fresh("use")
			var b strings.Builder
			fmt.Fprintf(&b, "def %s(c):\n", fn)
			switch g.r.Intn(6) {
			case 0:
				fmt.Fprintf(&b, "    acc = [0]\n    acc += c\n")
			case 1:
				fmt.Fprintf(&b, "    acc = [0]\n    acc.extend(c)\n")
			case 2:
				fmt.Fprintf(&b, "    acc = (0,)\n    acc += tuple(c)\n")
			default:
				fmt.Fprintf(&b, "    r = "+strings.ReplaceAll(t.Expr, "%%", "%%%%")+"\n", "c", "c")
			}
			fmt.Fprintf(&b, "    must_ok(%s, c)\n", g.mut(c))
			if g.r.Bool() {
				fmt.Fprintf(&b, "    for q in [1, 2]:\n        acc2 = [q]\n        acc2 += c\n        must_ok(%s, c)\n", g.mut(c))
			}
			fmt.Fprintf(&b, "    return 0\n")
			g.addDef(fn, b.String())
			g.emit(1, "attempt(%s, %s)", fn, c.name)
		} else {
			g.emit(1, "attempt(lambda: "+t.Expr+")", c.name)
		}
		g.emit(1, "must_ok(%s, %s)", g.mut(c), c.name)
		g.tags = append(g.tags, "builtin:"+t.Name)
	case 10: // built-in with call-back
		if len(cbTmpls) == 0 {
			return
		}
		t := cbTmpls[g.r.Intn(len(cbTmpls))]
		cb := g.fresh("cb")
		exit := g.r.Pick([]string{"", "", "    boom(0)\n", "    fault(\"k\")\n"})
		g.addDef("boom", "def boom(x):\n    return [1][x + 5]\n")
		// the built-in is walking the collection while it calls the key function
		// (it holds its iterator until it returns): mutation from inside the
		// call-back must be refused like anywhere else during an iteration
		g.addDef(cb, fmt.Sprintf("def %s(e):\n    must_fail(%s, %s)\n%s    return 0\n", cb, g.mut(c), "CB_"+c.name, exit))
		// the call-back reaches the collection through a global alias set by main
		g.emit(1, "CBS[%q] = %s", c.name, c.name)
		g.defs[cb] = strings.ReplaceAll(g.defs[cb], "CB_"+c.name, fmt.Sprintf("CBS[%q]", c.name))
		g.emit(1, "attempt(lambda: "+t.Expr+")", c.name, cb)
		g.emit(1, "must_ok(%s, %s)", g.mut(c), c.name)
		g.tags = append(g.tags, "callback:"+t.Name)
	default: // Go push iterators
		cb := g.fresh("pcb")
		exit := g.r.Pick([]string{"", "", "    boom(0)\n", "    fault(\"p\")\n"})
		g.addDef("boom", "def boom(x):\n    return [1][x + 5]\n")
		if c.typ == "dict" && g.r.Bool() {
			g.addDef(cb, fmt.Sprintf("def %s(k, v):\n    must_fail(%s, CBS[%q])\n%s    return 0\n", cb, g.mut(c), c.name, exit))
			g.emit(1, "CBS[%q] = %s", c.name, c.name)
			g.emit(1, "attempt(eachkv, %s, %s)", c.name, cb)
		} else {
			g.addDef(cb, fmt.Sprintf("def %s(e):\n    must_fail(%s, CBS[%q])\n%s    return 0\n", cb, g.mut(c), c.name, exit))
			g.emit(1, "CBS[%q] = %s", c.name, c.name)
			if g.r.Bool() {
				g.emit(1, "attempt(each, %s, %s)", c.name, cb)
			} else {
				g.emit(1, "attempt(each, %s, %s, %d)", c.name, cb, g.r.Range(0, 2)) // early break
			}
		}
		g.emit(1, "must_ok(%s, %s)", g.mut(c), c.name)
		g.tags = append(g.tags, "push-iterator")
	}
}

func (c06) Generate(seed uint64, i int, tier string) *Scenario {
	catalogues()
	r := NewRng(mix64(seed, uint64(i)) ^ 0xc06)
	sc := &Scenario{Prop: "C06", Family: "enum", Seed: seed, Index: i, D: Dialect{Set: r.Chance(4, 5), While: true, TopLevelControl: true, GlobalReassign: r.Bool(), Recursion: r.Bool()}, N: map[string]int64{}}
	g := &c06gen{r: r, d: sc.D, defs: map[string]string{}}
	if r.Chance(1, 120) {
		// deep recursion: an iteration held open in every one of up to 100 000
		// frames (the interpreter's own depth limit ends it with an error), left
		// by an error, a fault, a return or the depth limit itself
		sc.D.Recursion = true
		g.d = sc.D
		g.deepRecursion()
		sc.N["deep"] = 1
	}
	n := r.Range(1, 4)
	if sc.N["deep"] == 1 {
		n = 0
	}
	for k := 0; k < n; k++ {
		g.construct()
	}
	sc.Prog = append(sc.Prog, "CBS = {}\n")
	for _, name := range g.order {
		sc.Prog = append(sc.Prog, g.defs[name])
	}
	sc.Prog = append(sc.Prog, "def main():\n"+strings.Join(g.body, ""))
	sc.Prog = append(sc.Prog, "main()\n")
	sc.Note = strings.Join(g.tags, ",")
	return sc
}

// ---------------------------------------------------------------------------
// execution

type c06run struct {
	ctx   *TaskCtx
	err   error
	panic any
}

func c06exec(sc *Scenario, prog *starlark.Program, faults []Fault, limit uint64) c06run {
	w := NewWorld(nil, faults)
	c := w.NewCtx("main")
	pre := w.Predeclared()
	w.addC06Builtins(pre)
	if limit > 0 {
		c.Th.SetMaxExecutionSteps(limit)
	} else if sc.Knob("deep", 0) == 1 {
		c.Th.SetMaxExecutionSteps(5000000)
	} else {
		c.Th.SetMaxExecutionSteps(200000)
	}
	run := c06run{ctx: c}
	run.panic = safeRun(func() { _, run.err = prog.Init(c.Th, pre) })
	return run
}

var c06canary = "def cf(n):\n    return sorted([n - i for i in range(4)])\nprobe(cf(7), {\"k\": [x for x in range(3)]})\n"

var (
	canaryOnce sync.Once
	canaryProg *starlark.Program
	canaryWant []string
)

func (c06) postCheck(run c06run, what string, res *Result) {
	c := run.ctx
	// every kept collection and every collection nested inside one (an
	// element that was itself iterated, e.g. a pair handed to dict())
	roots := starlark.StringDict{}
	for i, v := range c.Kept {
		roots[fmt.Sprintf("%03d:%s", i, c.KeptNames[i])] = v
	}
	for _, n := range Walk(roots) {
		v := n.V
		if !IsCollection(v) {
			continue
		}
		if fr, ok := FrozenFlag(v); ok && fr {
			continue
		}
		if cnt, ok := IterCount(v); ok && cnt != 0 {
			res.Violate("lock-leak", "%s: %s %s has %d active iterator(s) after the call returned", what, v.Type(), n.Path, int32(cnt))
			continue
		}
		if err := NeutralMutation(v); err != nil {
			res.Violate("lock-leak", "%s: %s %s rejects a neutral mutation after the call returned: %v", what, v.Type(), n.Path, err)
		}
	}
	for _, hv := range c.HostViol {
		res.Violate(hv.Class, "%s: %s", what, hv.Detail)
	}
	if d := c.Th.CallStackDepth(); d != 0 {
		res.Violate("stack-depth", "%s: CallStackDepth()=%d after the outermost call returned", what, d)
	}
	// the thread remains usable
	canaryOnce.Do(func() {
		pre := NewWorld(nil, nil).Predeclared()
		canaryProg, _ = Compile(allOn, "canary.star", c06canary, pre)
		w := NewWorld(nil, nil)
		cc := w.NewCtx("canary")
		canaryProg.Init(cc.Th, w.Predeclared())
		canaryWant = cc.Transcript()
	})
	c.Th.Uncancel()
	c.Th.SetMaxExecutionSteps(math.MaxUint64)
	c.Tr = nil
	var cerr error
	pv := safeRun(func() { _, cerr = canaryProg.Init(c.Th, c.W.Predeclared()) })
	if pv != nil || cerr != nil || !sameStrings(c.Transcript(), canaryWant) {
		res.Violate("thread-unusable", "%s: canary on the same thread: panic=%v err=%v transcript %s", what, pv, cerr, diffStrings(c.Transcript(), canaryWant))
	}
}

func (p c06) Run(sc *Scenario) *Result {
	catalogues()
	res := NewResult()
	w0 := NewWorld(nil, nil)
	pre := w0.Predeclared()
	w0.addC06Builtins(pre)
	prog, err := Compile(sc.D, "main.star", sc.Source(), pre)
	if err != nil {
		res.Invalid = true
		return res
	}
	src := sc.Source()
	res.Sig = hashStr(src)
	deep := sc.Knob("deep", 0) == 1
	if deep {
		// 100 000 Starlark frames legitimately need more Go stack than the cap
		// the other scenarios run under
		debug.SetMaxStack(1 << 30)
		defer debug.SetMaxStack(128 << 20)
	}
	ref := c06exec(sc, prog, nil, 0)
	res.Evals++
	if ref.panic != nil {
		res.Violate("panic-without-fault", "fault-free run panicked: %v", ref.panic)
		return res
	}
	S, B := ref.ctx.Exec, ref.ctx.Calls
	res.Mix(ref.ctx.Transcript()...)
	res.Mix(outcome(ref.err), fmt.Sprint(S, B))
	res.Count("ref_steps", int64(S))
	res.Count("ref_host_calls", int64(B))
	for k, v := range ref.ctx.Probes {
		res.Count("probe_"+k, int64(v))
	}
	if ref.ctx.Probes["must_fail_clauses"]+ref.ctx.Probes["must_ok_clauses"] > 0 {
		res.Nontrivial = true
	}
	for _, t := range strings.Split(sc.Note, ",") {
		if t != "" {
			if i := strings.Index(t, ":"); i > 0 {
				t = t[:i]
			}
			res.Count("construct_"+t, 1)
		}
	}
	p.postCheck(ref, "fault-free run", res)
	if _, c := isCancelErr(ref.err); c {
		return res // ran into the safety budget: no enumeration
	}
	single := sc.Knob("single", 0) == 1
	// step limit at every N
	limits := sc.Limits
	if len(limits) == 0 && !single && deep {
		// a handful of cut points: shallow, deep, just before the end
		r := NewRng(hashStr(src))
		for k := 0; k < 3 && S > 10; k++ {
			limits = append(limits, uint64(r.Pick3(r.Range(1, 200), r.Range(200, int(S)), int(S)-r.Range(0, 8))))
		}
	} else if len(limits) == 0 && !single {
		if S <= 900 {
			for n := uint64(1); n <= S+1; n++ {
				limits = append(limits, n)
			}
		} else {
			r := NewRng(hashStr(src))
			for n := uint64(1); n <= S+1; n += uint64(r.Range(1, int(S/450)+1)) {
				limits = append(limits, n)
			}
		}
	}
	for _, N := range limits {
		run := c06exec(sc, prog, nil, N)
		res.Evals++
		res.Count("fault_step_limit", 1)
		if run.panic != nil {
			res.Violate("panic-under-limit", "limit %d: %v", N, run.panic)
			continue
		}
		p.postCheck(run, fmt.Sprintf("step limit %d", N), res)
	}
	// error / panic / cancel at every host built-in call
	kinds := []string{"error", "panic", "cancel"}
	var plan []Fault
	if len(sc.Faults) > 0 {
		plan = sc.Faults
	} else if !single {
		for k := uint64(1); k <= B && k <= 300 && !(deep && k > 2); k++ {
			for _, kind := range kinds {
				plan = append(plan, Fault{Kind: kind, Task: 0, Trigger: "call", K: k, Payload: "c06"})
			}
		}
	}
	for _, f := range plan {
		run := c06exec(sc, prog, []Fault{f}, 0)
		res.Evals++
		if run.ctx.Fired[f.Kind] == 0 {
			continue
		}
		res.Count("fault_"+f.Kind, 1)
		if f.Kind == "panic" {
			if run.panic == nil {
				res.Violate("panic-swallowed", "host panic at call %d did not reach the host", f.K)
			} else if _, ok := run.panic.(simPanic); !ok {
				res.Violate("panic-replaced", "host panic at call %d surfaced as %v", f.K, run.panic)
			}
		} else if run.panic != nil {
			res.Violate("panic-under-fault", "%s at call %d: %v", f.Kind, f.K, run.panic)
			continue
		}
		p.postCheck(run, fmt.Sprintf("%s at host call %d", f.Kind, f.K), res)
	}
	return res
}

func (c06) Shrink(sc *Scenario) []*Scenario {
	var out []*Scenario
	if sc.Knob("single", 0) == 0 && len(sc.Limits) == 0 && len(sc.Faults) == 0 {
		c := sc.Clone()
		c.N["single"] = 1
		out = append(out, c)
	}
	return out
}

// Shape: the violated clause plus the iteration constructs and non-host
// functions left in the minimised program.
func (c06) Shape(sc *Scenario, class string) string {
	return class + "/" + strings.Join(sourceFeatures(sc.D, sc.Source()), "+")
}

var hostNames = map[string]bool{"keep": true, "attempt": true, "must_fail": true, "must_ok": true, "may": true, "probe": true, "fault": true, "main": true, "gomutate": true, "freeze": true, "apply": true}

// sourceFeatures parses src and lists its iteration constructs and the
// universe functions / methods it calls.
func sourceFeatures(d Dialect, src string) []string {
	f, err := d.FileOptions().Parse("shape.star", src, 0)
	if err != nil {
		return []string{"unparsable"}
	}
	set := map[string]bool{}
	defs := map[string]bool{}
	syntax.Walk(f, func(n syntax.Node) bool {
		if d, ok := n.(*syntax.DefStmt); ok {
			defs[d.Name.Name] = true
		}
		return true
	})
	syntax.Walk(f, func(n syntax.Node) bool {
		switch x := n.(type) {
		case *syntax.ForStmt:
			set["for"] = true
			switch x.Vars.(type) {
			case *syntax.TupleExpr, *syntax.ListExpr, *syntax.ParenExpr:
				set["unpack"] = true
			}
		case *syntax.Comprehension:
			set["comprehension"] = true
		case *syntax.AssignStmt:
			switch x.LHS.(type) {
			case *syntax.TupleExpr, *syntax.ListExpr:
				set["unpack"] = true
			}
		case *syntax.CallExpr:
			for _, a := range x.Args {
				if u, ok := a.(*syntax.UnaryExpr); ok && u.Op == syntax.STAR {
					set["star-args"] = true
				}
			}
			switch fn := x.Fn.(type) {
			case *syntax.Ident:
				if !hostNames[fn.Name] && !defs[fn.Name] {
					set["call:"+fn.Name] = true
				}
			case *syntax.DotExpr:
				set["method:"+fn.Name.Name] = true
			}
		}
		return true
	})
	var out []string
	for k := range set {
		out = append(out, k)
	}
	sort.Strings(out)
	return out
}
