package main

import (
	"fmt"
	"reflect"
	"sort"
	"strings"
	"unsafe"

	"go.starlark.net/starlark"
	"go.starlark.net/starlarkstruct"
)

// ---------------------------------------------------------------------------
// Canonical, identity-numbered serialisation of value graphs.
//
// Mutable containers are numbered in order of first visit, so two graphs
// have the same canonical form iff they have the same shape, the same
// sharing/cycle structure, the same scalar content and the same iteration
// order of every dict and set. Nothing address-dependent is printed.

type canon struct {
	sb   strings.Builder
	ids  map[any]int
	deep bool // follow function defaults/cells and method receivers
	n    int
	max  int
}

func ptrKey(v starlark.Value) any {
	switch x := v.(type) {
	case *starlark.List:
		return x
	case *starlark.Dict:
		return x
	case *starlark.Set:
		return x
	case *starlark.Function:
		return x
	case *starlark.Builtin:
		return x
	case *starlarkstruct.Struct:
		return x
	case *starlarkstruct.Module:
		return x
	}
	return nil
}

func sameKey(a, b starlark.Value) bool {
	eq, err := starlark.Equal(a, b)
	return err == nil && eq
}

// Canon returns the canonical form of v (deep: through functions too).
func Canon(v starlark.Value) string {
	c := &canon{ids: map[any]int{}, deep: true, max: 200000}
	c.val(v)
	return c.sb.String()
}

// CanonDict serialises a StringDict with sorted names.
func CanonDict(d starlark.StringDict) string {
	c := &canon{ids: map[any]int{}, deep: true, max: 400000}
	names := make([]string, 0, len(d))
	for k := range d {
		names = append(names, k)
	}
	sort.Strings(names)
	for _, k := range names {
		c.sb.WriteString(k)
		c.sb.WriteString("=")
		c.val(d[k])
		c.sb.WriteString(";")
	}
	return c.sb.String()
}

func (c *canon) val(v starlark.Value) {
	if c.sb.Len() > c.max {
		c.sb.WriteString("…")
		return
	}
	if v == nil {
		c.sb.WriteString("<nil>")
		return
	}
	if k := ptrKey(v); k != nil {
		if id, ok := c.ids[k]; ok {
			fmt.Fprintf(&c.sb, "#%d", id)
			return
		}
		c.n++
		c.ids[k] = c.n
		fmt.Fprintf(&c.sb, "#%d=", c.n)
	}
	switch x := v.(type) {
	case starlark.NoneType, starlark.Bool, starlark.Int, starlark.Float, starlark.String, starlark.Bytes:
		c.sb.WriteString(x.String())
	case *starlark.List:
		c.sb.WriteString("[")
		for i := 0; i < x.Len(); i++ {
			if i > 0 {
				c.sb.WriteString(",")
			}
			c.val(x.Index(i))
		}
		c.sb.WriteString("]")
	case starlark.Tuple:
		c.sb.WriteString("(")
		for i, e := range x {
			if i > 0 {
				c.sb.WriteString(",")
			}
			c.val(e)
		}
		c.sb.WriteString(")")
	case *starlark.Dict:
		c.sb.WriteString("{")
		items := x.Items()
		for i, kv := range items {
			if i > 0 {
				c.sb.WriteString(",")
			}
			c.val(kv[0])
			c.sb.WriteString(":")
			c.val(kv[1])
		}
		// every route agrees: Items(), Keys(), iteration and Get
		keys := x.Keys()
		it := x.Iterate()
		var k starlark.Value
		j := 0
		for ; it.Next(&k); j++ {
			if j >= len(items) || j >= len(keys) || !sameKey(k, keys[j]) || !sameKey(k, items[j][0]) {
				c.sb.WriteString("!!iteration/Keys/Items disagree")
				break
			}
			if v, found, err := x.Get(k); err != nil || !found || (ptrKey(v) != nil && ptrKey(v) != ptrKey(items[j][1])) {
				c.sb.WriteString("!!Get disagrees with Items")
				break
			}
		}
		it.Done()
		if j != len(items) || len(keys) != len(items) || x.Len() != len(items) {
			c.sb.WriteString("!!lengths disagree")
		}
		c.sb.WriteString("}")
	case *starlark.Set:
		c.sb.WriteString("set{")
		for i, k := range setElems(x) {
			if i > 0 {
				c.sb.WriteString(",")
			}
			c.val(k)
		}
		c.sb.WriteString("}")
	case *starlark.Function:
		fmt.Fprintf(&c.sb, "fn<%s", x.Name())
		if c.deep {
			c.sb.WriteString(" d=[")
			for i := 0; i < x.NumParams(); i++ {
				if d := x.ParamDefault(i); d != nil {
					c.val(d)
					c.sb.WriteString(",")
				}
			}
			c.sb.WriteString("] f=[")
			for i := 0; i < x.NumFreeVars(); i++ {
				_, fv := x.FreeVar(i)
				c.val(fv)
				c.sb.WriteString(",")
			}
			c.sb.WriteString("]")
		}
		c.sb.WriteString(">")
	case *starlark.Builtin:
		fmt.Fprintf(&c.sb, "bi<%s", x.Name())
		if r := x.Receiver(); r != nil && c.deep {
			c.sb.WriteString(" r=")
			c.val(r)
		}
		c.sb.WriteString(">")
	case *starlarkstruct.Struct:
		c.sb.WriteString("struct<")
		if k, ok := x.Constructor().(starlark.String); ok {
			c.sb.WriteString(string(k))
		} else {
			c.val(x.Constructor())
		}
		c.sb.WriteString(">(")
		for _, name := range x.AttrNames() {
			a, _ := x.Attr(name)
			c.sb.WriteString(name)
			c.sb.WriteString("=")
			c.val(a)
			c.sb.WriteString(",")
		}
		c.sb.WriteString(")")
	case *starlarkstruct.Module:
		fmt.Fprintf(&c.sb, "module<%s>(", x.Name)
		for _, name := range x.Members.Keys() {
			c.sb.WriteString(name)
			c.sb.WriteString("=")
			c.val(x.Members[name])
			c.sb.WriteString(",")
		}
		c.sb.WriteString(")")
	default:
		fmt.Fprintf(&c.sb, "%s<%s>", v.Type(), safeString(v))
	}
}

func safeString(v starlark.Value) (s string) {
	defer func() {
		if r := recover(); r != nil {
			s = fmt.Sprintf("<panic %v>", r)
		}
	}()
	return v.String()
}

func setElems(s *starlark.Set) []starlark.Value {
	var out []starlark.Value
	it := s.Iterate()
	var k starlark.Value
	for it.Next(&k) {
		out = append(out, k)
	}
	it.Done()
	return out
}

// ---------------------------------------------------------------------------
// Reachability walk.

// A Node is one reachable value with the path by which it was first reached.
type Node struct {
	V    starlark.Value
	Path string
}

// Walk returns every identity-bearing value reachable from roots through list,
// tuple, dict (keys and values), set elements, struct fields and constructor,
// function defaults and closure cells, bound-method receivers and module
// members. Tuples are followed but not reported as nodes.
func Walk(roots starlark.StringDict) []Node { return walk(roots, nil) }

// WalkTuples returns the non-empty tuples met on the same walk (they have no
// identity of their own; each occurrence is reported once per path).
func WalkTuples(roots starlark.StringDict) []Node {
	var ts []Node
	walk(roots, &ts)
	return ts
}

func walk(roots starlark.StringDict, tuples *[]Node) []Node {
	seen := map[any]bool{}
	var out []Node
	var visit func(v starlark.Value, path string, depth int)
	visit = func(v starlark.Value, path string, depth int) {
		if v == nil || depth > 64 {
			return
		}
		if k := ptrKey(v); k != nil {
			if seen[k] {
				return
			}
			seen[k] = true
			out = append(out, Node{v, path})
		}
		switch x := v.(type) {
		case *starlark.List:
			for i := 0; i < x.Len(); i++ {
				visit(x.Index(i), fmt.Sprintf("%s[%d]", path, i), depth+1)
			}
		case starlark.Tuple:
			if tuples != nil && len(x) > 0 && len(*tuples) < 400 {
				*tuples = append(*tuples, Node{x, path})
			}
			for i, e := range x {
				visit(e, fmt.Sprintf("%s(%d)", path, i), depth+1)
			}
		case *starlark.Dict:
			for i, kv := range x.Items() {
				visit(kv[0], fmt.Sprintf("%s.key%d", path, i), depth+1)
				visit(kv[1], fmt.Sprintf("%s.val%d", path, i), depth+1)
			}
		case *starlark.Set:
			for i, k := range setElems(x) {
				visit(k, fmt.Sprintf("%s.elem%d", path, i), depth+1)
			}
		case *starlark.Function:
			for i := 0; i < x.NumParams(); i++ {
				if d := x.ParamDefault(i); d != nil {
					visit(d, fmt.Sprintf("%s.default%d", path, i), depth+1)
				}
			}
			for i := 0; i < x.NumFreeVars(); i++ {
				b, fv := x.FreeVar(i)
				visit(fv, fmt.Sprintf("%s.free(%s)", path, b.Name), depth+1)
			}
		case *starlark.Builtin:
			if r := x.Receiver(); r != nil {
				visit(r, path+".recv", depth+1)
			}
		case *starlarkstruct.Struct:
			visit(x.Constructor(), path+".ctor", depth+1)
			for _, name := range x.AttrNames() {
				a, _ := x.Attr(name)
				visit(a, path+"."+name, depth+1)
			}
		case *starlarkstruct.Module:
			for _, name := range x.Members.Keys() {
				visit(x.Members[name], path+"."+name, depth+1)
			}
		}
	}
	names := make([]string, 0, len(roots))
	for k := range roots {
		names = append(names, k)
	}
	sort.Strings(names)
	for _, k := range names {
		visit(roots[k], k, 0)
	}
	return out
}

// ---------------------------------------------------------------------------
// White-box reads through reflect (read-only; degrade to "unavailable").

var whiteboxOK = true

func reflField(v any, path ...string) (rv reflect.Value, ok bool) {
	defer func() {
		if recover() != nil {
			ok = false
			whiteboxOK = false
		}
	}()
	rv = reflect.ValueOf(v)
	for rv.Kind() == reflect.Ptr {
		rv = rv.Elem()
	}
	for _, p := range path {
		rv = rv.FieldByName(p)
		if !rv.IsValid() {
			whiteboxOK = false
			return rv, false
		}
	}
	return rv, true
}

// IterCount returns the active-iterator count of a list/dict/set (white-box).
func IterCount(v starlark.Value) (n uint64, ok bool) {
	switch x := v.(type) {
	case *starlark.List:
		if f, ok := reflField(x, "itercount"); ok {
			return f.Uint(), true
		}
	case *starlark.Dict:
		if f, ok := reflField(x, "ht", "itercount"); ok {
			return f.Uint(), true
		}
	case *starlark.Set:
		if f, ok := reflField(x, "ht", "itercount"); ok {
			return f.Uint(), true
		}
	}
	return 0, false
}

// FrozenFlag returns the frozen flag of a list/dict/set (white-box).
func FrozenFlag(v starlark.Value) (frozen bool, ok bool) {
	switch x := v.(type) {
	case *starlark.List:
		if f, ok := reflField(x, "frozen"); ok {
			return f.Bool(), true
		}
	case *starlark.Dict:
		if f, ok := reflField(x, "ht", "frozen"); ok {
			return f.Bool(), true
		}
	case *starlark.Set:
		if f, ok := reflField(x, "ht", "frozen"); ok {
			return f.Bool(), true
		}
	case *starlarkstruct.Struct:
		if f, ok := reflField(x, "frozen"); ok {
			return f.Bool(), true
		}
	}
	return false, false
}

// headerSnapshot returns a word-level snapshot of the header of a frozen
// object (white-box): slice headers, flags, counters, table pointers.
func headerSnapshot(v starlark.Value) (string, bool) {
	word := func(f reflect.Value) uintptr {
		switch f.Kind() {
		case reflect.Ptr, reflect.UnsafePointer:
			return f.Pointer()
		case reflect.Slice:
			return f.Pointer() ^ uintptr(f.Len())<<48 ^ uintptr(f.Cap())<<32
		case reflect.Bool:
			if f.Bool() {
				return 1
			}
			return 0
		case reflect.Uint32, reflect.Uint64, reflect.Uint:
			return uintptr(f.Uint())
		}
		return 0
	}
	switch x := v.(type) {
	case *starlark.List:
		e, ok1 := reflField(x, "elems")
		f, ok2 := reflField(x, "frozen")
		i, ok3 := reflField(x, "itercount")
		if ok1 && ok2 && ok3 {
			return fmt.Sprintf("L:%x:%x:%x", word(e), word(f), word(i)), true
		}
	case *starlark.Dict, *starlark.Set:
		var parts []string
		for _, name := range []string{"table", "len", "itercount", "head", "tailLink", "frozen"} {
			f, ok := reflField(x, "ht", name)
			if !ok {
				return "", false
			}
			parts = append(parts, fmt.Sprintf("%x", word(f)))
		}
		return "H:" + strings.Join(parts, ":"), true
	case *starlarkstruct.Struct:
		e, ok1 := reflField(x, "entries")
		f, ok2 := reflField(x, "frozen")
		if ok1 && ok2 {
			return fmt.Sprintf("S:%x:%x", word(e), word(f)), true
		}
	}
	return "", false
}

var _ = unsafe.Pointer(nil)

// ---------------------------------------------------------------------------
// Black-box mutability probe: an observably neutral mutation through the Go
// API. Returns nil if the collection accepted it.
func NeutralMutation(v starlark.Value) error {
	switch x := v.(type) {
	case *starlark.List:
		if x.Len() > 0 {
			return x.SetIndex(0, x.Index(0))
		}
		if err := x.Append(starlark.None); err != nil {
			return err
		}
		return x.Clear()
	case *starlark.Dict:
		if items := x.Items(); len(items) > 0 {
			return x.SetKey(items[0][0], items[0][1])
		}
		if err := x.SetKey(starlark.None, starlark.None); err != nil {
			return err
		}
		_, _, err := x.Delete(starlark.None)
		return err
	case *starlark.Set:
		if el := setElems(x); len(el) > 0 {
			return x.Insert(el[0])
		}
		if err := x.Insert(starlark.None); err != nil {
			return err
		}
		_, err := x.Delete(starlark.None)
		return err
	}
	return nil
}

// IsCollection reports whether v is a list, dict or set.
func IsCollection(v starlark.Value) bool {
	switch v.(type) {
	case *starlark.List, *starlark.Dict, *starlark.Set:
		return true
	}
	return false
}
