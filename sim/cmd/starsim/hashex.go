package main

import (
	"fmt"
	"strings"
)

// hashExercise emits a function that drives sets and dicts keyed by strings on
// both sides of the 12-byte hashing switch (and a few ints/tuples) through a
// random sequence of operations, printing the result of every one. Any result
// that depends on hash values or bucket layout (membership, subset tests,
// derived collections, iteration order, pop order) then differs between the
// hash-function worlds and between fresh processes.
func hashExercise(r *Rng, id int, withSet bool) string {
	var b strings.Builder
	key := func(tag string, i int) string {
		switch r.Intn(5) {
		case 0:
			return fmt.Sprintf("%q", fmt.Sprintf("%s%d", tag, i)) // short
		default:
			return fmt.Sprintf("%q", fmt.Sprintf("%s-%d-padding-over-12-bytes", tag, i))
		}
	}
	_ = key
	sizes := []int{0, 1, 3, 8, 9, 12, 13, 14, 17, 26, 27, 40, 60, 120}
	fmt.Fprintf(&b, "def hx%d():\n", id)
	emit := func(f string, a ...any) { fmt.Fprintf(&b, "    "+f+"\n", a...) }
	// source key lists (deterministic content, shared prefixes so operands overlap)
	nk := 3
	for i := 0; i < nk; i++ {
		n := sizes[r.Intn(len(sizes))]
		lo := r.Range(0, 5)
		short := r.Chance(1, 5)
		if short {
			emit("k%d = [\"k%%d\" %% q for q in range(%d, %d)]", i, lo, lo+n)
		} else {
			emit("k%d = [\"key-%%d-padding-over-12-bytes\" %% q for q in range(%d, %d)]", i, lo, lo+n)
		}
		if r.Chance(1, 3) {
			emit("k%d = k%d + [\"x\", (1, \"a-long-string-over-12-bytes\"), 7, \"0123456789ab\", \"0123456789abc\"]", i, i)
		}
	}
	if withSet {
		for i := 0; i < nk; i++ {
			emit("s%d = set(k%d)", i, i)
		}
	}
	for i := 0; i < nk; i++ {
		emit("d%d = {q: len(str(q)) for q in k%d}", i, i)
	}
	S := func() string { return fmt.Sprintf("s%d", r.Intn(nk)) }
	D := func() string { return fmt.Sprintf("d%d", r.Intn(nk)) }
	K := func() string { return fmt.Sprintf("k%d", r.Intn(nk)) }
	nops := r.Range(5, 16)
	for j := 0; j < nops; j++ {
		if withSet && r.Bool() {
			switch r.Intn(16) {
			case 0:
				emit("print(%s <= %s, %s < %s, %s >= %s, %s > %s, %s == %s)", S(), S(), S(), S(), S(), S(), S(), S(), S(), S())
			case 1:
				emit("print(%s.issubset(%s), %s.issuperset(%s), %s.isdisjoint(%s))", S(), K(), S(), K(), S(), K())
			case 2:
				emit("print(%s | %s)", S(), S())
			case 3:
				emit("print(%s & %s, len(%s & %s))", S(), S(), S(), S())
			case 4:
				emit("print(%s - %s)", S(), S())
			case 5:
				emit("print(%s ^ %s)", S(), S())
			case 6:
				emit("print(%s.union(%s), %s.difference(%s), %s.symmetric_difference(%s), sorted([str(q) for q in %s.intersection(%s)]))", S(), K(), S(), K(), S(), K(), S(), K())
			case 7:
				s := S()
				emit("if %s:\n        print(%s.pop(), len(%s))", s, s, s)
			case 8:
				emit("%s.update(%s)", S(), K())
			case 9:
				s := S()
				emit("for q in list(%s)[::%d]:\n        %s.discard(q)", s, r.Range(2, 4), s)
			case 10:
				emit("print([q in %s for q in %s[:6]])", S(), K())
			case 11:
				emit("print(list(%s)[:10], len(%s))", S(), S())
			case 12:
				emit("%s.add(%q)", S(), fmt.Sprintf("added-%d-long-enough-key", j))
			case 13:
				emit("print(%s.issubset(%s), %s.issubset(%s), %s.issuperset(%s))", S(), S(), S(), S(), S(), S())
			case 14:
				emit("print(%s == set(%s), %s != %s)", S(), K(), S(), S())
			default:
				s := S()
				emit("%s = set(list(%s)[%d:])", s, s, r.Range(0, 3))
			}
			continue
		}
		switch r.Intn(14) {
		case 0:
			emit("print(%s | %s)", D(), D())
		case 1:
			emit("print(%s == %s, %s != %s)", D(), D(), D(), D())
		case 2:
			d := D()
			emit("if %s:\n        print(%s.popitem(), len(%s))", d, d, d)
		case 3:
			d := D()
			emit("for q in list(%s.keys())[::%d]:\n        %s.pop(q)", d, r.Range(2, 4), d)
		case 4:
			emit("%s.update(%s)", D(), D())
		case 5:
			emit("print([%s.get(q, -1) for q in %s[:6]])", D(), K())
		case 6:
			emit("print(list(%s.items())[:8], len(%s))", D(), D())
		case 7:
			emit("%s[%q] = %d", D(), fmt.Sprintf("inserted-%d-long-enough-key", j), j)
		case 8:
			emit("print(%s.setdefault(%q, %d))", D(), fmt.Sprintf("sd-%d-long-enough-key-here", r.Intn(3)), j)
		case 9:
			emit("print(json.encode({str(q): v for q, v in %s.items()})[:200])", D())
		case 10:
			emit("print(sorted([str(q) for q in %s])[:6], [q in %s for q in %s[:5]])", D(), D(), K())
		case 11:
			d := D()
			emit("%s |= %s", d, D())
		case 12:
			emit("print(dict(%s, zz=1) == %s, list(%s.values())[:8])", D(), D(), D())
		default:
			emit("print(str(%s)[:300])", D())
		}
	}
	rets := []string{"d0", "d1", "d2"}
	if withSet {
		rets = append(rets, "s0", "s1", "s2")
	}
	emit("return [%s]", strings.Join(rets, ", "))
	fmt.Fprintf(&b, "hxr%d = hx%d()\n", id, id)
	return b.String()
}
