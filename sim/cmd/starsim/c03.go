package main

import (
	"encoding/json"
	"fmt"
	"os"
	"os/exec"
	"runtime"
	"sort"
	"strings"
	"sync"

	"go.starlark.net/starlark"

	"verifsim/sched"
)

// C03 — execution is deterministic.
//
// One scenario = a program P (+ loadable modules + other programs). P is
// executed in a baseline world and in variations, all inside one simulation:
//   (a) replayable string-hash functions chosen from the tape (hook 3),
//   (b) fresh OS processes with the production maphash seed (sampled),
//   (c) the same process after unrelated executions and a forced GC,
//   (d) on a thread interleaved under a seeded schedule with other threads
//       running other programs and another copy of P, sharing loaded modules,
//   (e) plain repetitions (samples Go map iteration order).
// All observables must be byte-identical.

type c03 struct{}

func init() { register(c03{}) }

func (c03) ID() string    { return "C03" }
func (c03) Level() string { return "exploration" }
func (c03) Rule() string {
	return "generated programs (core language + json/math/struct + time with a fixed injected clock + load of 0-2 generated modules, hash-table-heavy blocks with string keys either side of the 12-byte switch) x worlds {6 tape-chosen string-hash functions; fresh OS processes with the production seed (sampled); after unrelated executions + GC; interleaved with 2-3 other threads incl. another copy of the program under a seeded schedule; plain repetitions}. A case is one execution of the program in one world; distinct = distinct (program hash, world); non-trivial = the program printed or built at least one dict/set with >= 2 entries or ended in an error with a backtrace"
}
func (c03) Components() map[string]string {
	return map[string]string{
		"syntax/resolve/compile/VM/library/hashtable/json/math/time/starlarkstruct": "real",
		"string hash seed":       "hook 3 (replayable stand-in for maphash seeds) + real fresh processes with the production maphash seed",
		"Go map iteration order": "no seam possible: sampled by repetition",
		"clock":                  "lib/time SetNow seam, fixed per-thread clock (k-th call returns base + k*delta)",
		"module loader":          "stub (simulator cache with blocked-waiter semantics)",
		"scheduler":              "starsim seeded scheduler",
	}
}
func (c03) Budget(tier string) int {
	if tier == "thorough" {
		return 80000
	}
	return 1500
}

var hashHeavy = []string{
	"def hh%[1]d():\n    hd = {}\n    for hw in [\"alpha\", \"a-long-string-over-12-bytes\", \"beta\", \"another-quite-long-key-000\", \"g\", \"0123456789ab\", \"0123456789abc\", \"zz\", \"the quick brown fox\", \"k\"]:\n        hd[hw] = len(hd)\n    for hv in list(hd.keys())[::%[2]d]:\n        hd.pop(hv)\n    hd[\"alpha\"] = -1\n    hd.update({\"omega-omega-omega-omega\": 9, \"beta\": 8})\n    print(hd, hd.keys(), hd.values())\n    return hd\nhr%[1]d = hh%[1]d()\n",
	"def hh%[1]d():\n    big = {(\"key-%%d-padding-to-exceed-12\" %% i): i for i in range(%[3]d)}\n    for i in range(0, %[3]d, %[2]d):\n        big.pop(\"key-%%d-padding-to-exceed-12\" %% i)\n    for j in range(0, %[3]d, %[2]d + 1):\n        big[\"key-%%d-padding-to-exceed-12\" %% j] = -j\n    print(list(big.items())[:12], len(big))\n    probe(big)\n    return big\nhr%[1]d = hh%[1]d()\n",
	"def hh%[1]d():\n    sa = set([\"s-%%d-long-enough-string\" %% i for i in range(%[3]d)] + [\"x\", \"y\"])\n    sb = set([\"s-%%d-long-enough-string\" %% i for i in range(%[2]d, %[3]d + 5)] + [\"y\", \"z\"])\n    print(sa | sb, sa & sb, sa - sb, sa ^ sb)\n    probe(sorted(sa.union(sb)))\n    return [sa, sb]\nhr%[1]d = hh%[1]d()\n",
	"def hh%[1]d():\n    mx = {1: \"a\", \"1\": \"b\", (1, \"a-long-string-over-12-bytes\"): \"c\", 1.5: \"d\", True: \"e\", \"true-true-true-true\": \"f\", None: \"g\"}\n    mx.pop(1)\n    mx[1] = \"again\"\n    print(mx, json.encode({str(k): v for k, v in mx.items()}))\n    return mx\nhr%[1]d = hh%[1]d()\n",
	"hr%[1]d = struct(zeta_field_name_long=1, a=2, mmmmmmmmmmmmmmm=3, b=[4])\nprint(hr%[1]d, dir(hr%[1]d), json.encode(hr%[1]d), dir(json), dir(math), dir(time), dir(\"\"), dir([]), dir({}), dir(b\"\"))\n",
	"hr%[1]d = [time.now(), time.now() - time.now(), str(time.now().unix)]\nprint(hr%[1]d)\n",
	// functions that mutate what the interpreter handed them (**kwargs, *args copies, default-less collections):
	// each call must get fresh ones — otherwise a later call, a later execution or another thread sees the leftovers
	"def hk%[1]d(*args, **kw):\n    kw.setdefault(\"tags\", []).append(len(kw))\n    kw[\"n-%[2]d\"] = len(args)\n    return kw\nhr%[1]d = [hk%[1]d(), hk%[1]d(1, 2), hk%[1]d(), str(hk%[1]d(a=1)), len(hk%[1]d())]\nprint(hr%[1]d)\n",
	"def hv%[1]d(*args):\n    l = list(args)\n    l.append(len(l))\n    return (args, l)\ndef hw%[1]d(**kw):\n    kw.update(seen=len(kw))\n    return sorted(kw.items())\nhr%[1]d = [hv%[1]d(), hv%[1]d(), hw%[1]d(), hw%[1]d(), hw%[1]d(**{}), hv%[1]d(*[])]\nprint(hr%[1]d)\n",
	// attribute listings of values of every library type (a listing built from a shared or cached slice shows up
	// as a difference between the first and a later execution in the same process)
	"hr%[1]d = [dir(time.now()), dir(time.now() - time.now()), dir(struct(b=1, a=2)), dir(json), dir(math), dir(time), dir(()), dir([]), dir({}), dir(range(3)), dir(len), dir(\"\".join), dir(lambda: 0), dir(1), dir(1.5), dir(None), dir(True)]\nprint(hr%[1]d)\nprint(dir(time.now()), dir(time.now() - time.now()))\n",
	"hr%[1]d = [getattr(time.now(), q) for q in dir(time.now()) if q in (\"year\", \"month\", \"unix\", \"nanosecond\")] + [str(getattr(time.now() - time.now(), q)) for q in dir(time.now() - time.now())]\nprint(hr%[1]d, time.parse_duration(\"1h5m\"), time.time(year=2024, month=2, day=29), time.from_timestamp(1700000000, 5), time.is_valid_timezone(\"UTC\"))\n",
}

// c03errorSites: final statements that fail with a message naming several
// things at once (duplicate / unexpected / missing arguments, keys, fields).
var c03errorSites = []string{
	"es_r = dict(srcs=[], deps=[], name=1, **{\"deps\": 1, \"name\": 3, \"srcs\": 2})\n",
	"es_d = {}\nes_d.update(zeta=1, alpha=2, mid=3, **{\"mid\": 0, \"alpha\": 1, \"zeta\": 2})\n",
	"def es_f(a, b, c, *, k1, k2):\n    t = [a]\n    for q in range(3):\n        t.append(q * 2)\n    u = {\"k\": t}\n    if len(t) > 2:\n        u[\"n\"] = len(t)\n    return (a, t, u)\nes_r = es_f()\n",
	"def es_f(a, b=2):\n    t = [a]\n    for q in range(3):\n        t.append(q * 2)\n    u = {\"k\": t}\n    if len(t) > 2:\n        u[\"n\"] = len(t)\n    return (a, t, u)\nes_r = es_f(1, **{\"zz\": 1, \"yy\": 2, \"xx\": 3, \"a-long-keyword-name-over-12\": 4})\n",
	"def es_f(a, b, c):\n    t = [a]\n    for q in range(3):\n        t.append(q * 2)\n    u = {\"k\": t}\n    if len(t) > 2:\n        u[\"n\"] = len(t)\n    return (a, t, u)\nes_r = es_f(1, 2, 3, **{\"c\": 1, \"b\": 2, \"a\": 3})\n",
	"def es_f(*, k_one, k_two, k_three):\n    a = 1\n    t = [a]\n    for q in range(3):\n        t.append(q * 2)\n    u = {\"k\": t}\n    if len(t) > 2:\n        u[\"n\"] = len(t)\n    return (a, t, u)\nes_r = es_f(**{\"k_four\": 4, \"k_five\": 5})\n",
	"es_r = struct(alpha=1, beta=2, gamma=3, **{\"gamma\": 0, \"beta\": 1, \"alpha\": 2})\n",
	"es_r = \"%(first)s %(second)s %(third)s\" % {\"other-key-a-long-one\": 1, \"zz\": 2}\n",
	"es_r = \"{first} {second} {third}\".format(**{\"fourth-key-a-long-one\": 1, \"zz\": 2})\n",
	"es_r = json.encode({\"k-one-long-enough-key\": len, \"a\": print, \"m\": [dir]})\n",
	"es_r = json.encode(struct(zz=len, aa=print, mm_long_field_name_here=dir))\n",
	"es_r = getattr(struct(alpha=1, alphb=2, alphc=3, alphd=4), \"alph\")\n",
	"es_r = {\"a-long-string-over-12-bytes\": 1, \"b\": 2, (1, 2): 3}[\"missing-key-that-is-long\"]\n",
	"es_r = sorted([\"b\", 1, None, \"a-long-string-over-12-bytes\", (1,)])\n",
	"es_r = set([\"a-long-string-over-12-bytes\", \"b\", \"c\"]).union([[1], [2]])\n",
	"es_r = dict([(\"a\", 1), (\"b-long-string-over-12-bytes\", 2), ([], 3), ({}, 4)])\n",
	"es_r = fail(\"stop:\", {\"a-long-string-over-12-bytes\": 1, \"b\": [2]}, struct(z=1, a=2), [dir, len])\n",
	"es_r = min({\"a-long-string-over-12-bytes\": 1, 2: 3, None: 4})\n",
	"def es_f(x, y):\n    a = x\n    t = [a]\n    for q in range(3):\n        t.append(q * 2)\n    u = {\"k\": t}\n    if len(t) > 2:\n        u[\"n\"] = len(t)\n    return (a, t, u)\nes_r = [es_f(*q) for q in [(1, 2), {\"a-long-string-over-12-bytes\": 1, \"b\": 2, \"c\": 3}]]\n",
	"es_a, es_b = {\"a-long-string-over-12-bytes\": 1, \"b\": 2, \"c\": 3}\n",
	"es_r = json.decode('{\"a-long-string-over-12-bytes\": 1, \"b\": 2, \"a-long-string-over-12-bytes\": 3, \"b\": }')\n",
	"es_r = time.time(yeer=1, munth=2, dai=3)\n",
	// misspelt members of library modules with several equally near candidates (the hint's tie-break must not
	// depend on the order in which a module lists its members)
	"es_r = math.sinx(1)\n", "es_r = math.acosx\n", "es_r = math.atanx\n", "es_r = json.dncode(\"1\")\n", "es_r = math.cosx\n", "es_r = math.tanx(0)\n",
	"es_r = time.noww()\n", "es_r = time.parse_tim\n", "es_r = math.lo(2)\n", "es_r = math.flor(1.5)\n", "es_r = json.encod(1)\n", "es_r = math.ex\n",
	// library modules (and values holding them) handed to json.encode / str / dir: members are walked in a defined order
	"es_r = json.encode(math)\n", "es_r = json.encode(json)\n", "es_r = json.encode([1, {\"m\": time}])\n", "es_r = json.encode(struct(mod=math, n=1))\n",
	"es_r = json.encode({\"a\": [math, json]})\n",
	"print(str(math)[:40], dir(math) == sorted(dir(math)), dir(json), dir(time))\nes_r = [getattr(math, q) for q in dir(math)][1000]\n",
	"def es_g(a, b):\n    w = [a, b]\n    for q in range(4):\n        w.append(q)\n    return w\ndef es_h(n):\n    v = es_g(n, n + 1)\n    v2 = es_g(*v[:2])\n    return es_g(n)\nes_r = [es_h(1)]\n",
	"def es_g(a, b=1, *, c):\n    w = [a, b]\n    for q in range(4):\n        w.append(q)\n    return w\nes_ok = es_g(1, c=2)\nes_r = sorted([3, 1, 2], key=es_g)\n",
	"es_l = lambda a, b: (\n    a +\n    b +\n    1)\nes_ok = es_l(1, 2)\nes_r = es_l(1)\n",
	"es_r = math.pow(**{\"y\": 1, \"x\": 2, \"zz\": 3, \"ww\": 4})\n",
}

func (c03) Generate(seed uint64, i int, tier string) *Scenario {
	r := NewRng(mix64(seed, uint64(i)) ^ 0xc03)
	sc := &Scenario{Prop: "C03", Family: "worlds", Seed: seed, Index: i, D: RandomDialect(r), N: map[string]int64{}}
	var loads []LoadSpec
	nm := r.Pick3(0, 1, 2)
	for m := 0; m < nm; m++ {
		name := fmt.Sprintf("lib%d.star", m)
		var units []string
		var names []string
		var kinds []kind
		var fn []bool
		k := r.Range(1, 3)
		for j := 0; j < k; j++ {
			n := fmt.Sprintf("lib%d_v%d", m, j)
			switch r.Intn(3) {
			case 0:
				units = append(units, fmt.Sprintf("%s = {(\"lib-key-%%d-with-padding\" %% q): q for q in range(%d)}\n", n, r.Range(2, 20)))
				names, kinds, fn = append(names, n), append(kinds, kDictSI), append(fn, false)
			case 1:
				units = append(units, fmt.Sprintf("%s = [q * %d for q in range(%d)]\n", n, r.Range(1, 5), r.Range(0, 6)))
				names, kinds, fn = append(names, n), append(kinds, kListI), append(fn, false)
			default:
				units = append(units, fmt.Sprintf("def %s():\n    return len(%q)\n", n, n))
				names, kinds, fn = append(names, n), append(kinds, kInt), append(fn, true)
			}
		}
		// a function of the shared module that fails: every thread that calls it
		// decodes the same (shared) position table for its backtrace
		failFn := fmt.Sprintf("lib%d_fail", m)
		units = append(units, fmt.Sprintf("def %s(n):\n    t = [n]\n    t.append(n * 2)\n    return t[n + 7]\n", failFn))
		units = append(units, fmt.Sprintf("print(\"loading %s\", time.now())\n", name))
		sc.Mods = append(sc.Mods, Module{Name: name, Units: units})
		loads = append(loads, LoadSpec{Module: name, Names: names, Kinds: kinds, Fn: fn})
	}
	opts := GenOpts{D: sc.D, Units: r.Range(6, 16), ErrPermille: r.Pick3(0, 10, 35), Probes: true, JSON: true, Time: true, Loads: loads, MutGlobals: true}
	g := NewGen(r.Fork(), opts)
	prog := g.Program()
	// the shared modules' failing functions are loaded too, but not offered to
	// the expression generator
	for m := range loads {
		old := fmt.Sprintf("load(\"lib%d.star\", ", m)
		for ui := range prog {
			if strings.HasPrefix(prog[ui], old) {
				prog[ui] = strings.Replace(prog[ui], old, old+fmt.Sprintf("\"lib%d_fail\", ", m), 1)
			}
		}
	}
	// splice hash-table-heavy blocks in
	nh := r.Range(1, 3)
	for k := 0; k < nh; k++ {
		t := r.Intn(len(hashHeavy))
		if t == 2 && !sc.D.Set {
			continue
		}
		block := fmt.Sprintf(hashHeavy[t], 100+k, r.Range(2, 4), r.Pick3(9, 40, 200))
		at := len(loads) + r.Intn(len(prog)-len(loads)+1)
		prog = append(prog[:at], append([]string{block}, prog[at:]...)...)
	}
	// randomly generated hash-table exercises (operation sequences over sets and
	// dicts of long-string keys, every result printed)
	for k, nx := 0, r.Pick3(0, 1, 2); k < nx; k++ {
		block := hashExercise(r, 200+k, sc.D.Set)
		at := len(loads) + r.Intn(len(prog)-len(loads)+1)
		prog = append(prog[:at], append([]string{block}, prog[at:]...)...)
	}
	if r.Chance(1, 3) {
		// end in an attribute error on a misspelt field of the program's own
		// struct: the "did you mean" hint is part of the observable error
		fs := structFieldSets[r.Intn(len(structFieldSets))]
		name := fs[r.Intn(3)]
		typo := name + "s"
		if len(name) > 2 && r.Bool() {
			typo = name[:len(name)-1]
		}
		prog = append(prog, fmt.Sprintf("def typo_site(v):\n    return v.%s\ntypo_result = typo_site(struct(%s=1, %s=\"two\", %s=[3]))\n", typo, fs[0], fs[1], fs[2]))
	}
	if len(loads) > 0 && r.Chance(1, 3) {
		// end inside a function of a loaded (shared) module
		prog = append(prog, fmt.Sprintf("es_shared = lib%d_fail(%d)\n", r.Intn(len(loads)), r.Range(0, 3)))
	} else if r.Chance(1, 4) {
		// end in an error whose message enumerates names or entries: whatever
		// order they are reported in must not depend on a Go map or on hashing
		site := c03errorSites[r.Intn(len(c03errorSites))]
		if sc.D.Set || !strings.Contains(site, "set(") {
			prog = append(prog, site)
		}
	}
	sc.Prog = prog
	// other programs for world (d)
	no := r.Range(1, 2)
	for k := 0; k < no; k++ {
		og := NewGen(r.Fork(), GenOpts{D: sc.D, Units: r.Range(4, 10), ErrPermille: 10, Probes: true, JSON: true, Time: true, Loads: loads, MutGlobals: true})
		sc.Readers = append(sc.Readers, og.Program())
	}
	// a twin of P whose structs have other field names: it misspells the same
	// attributes on differently shaped values (anything cached per type name
	// or per process would leak from one program into the other)
	if tw := renameStructFields(sc.Prog, r.Intn(len(structFieldSets))); tw != nil {
		sc.Readers = append(sc.Readers, tw)
	}
	sc.Sched = randomSched(r, 2+len(sc.Readers))
	sc.N["hashseed"] = int64(r.U64() >> 1)
	sc.N["fresh"] = 0
	if r.Chance(1, 6) {
		sc.N["fresh"] = 2
		if tier == "thorough" {
			sc.N["fresh"] = 8
		}
	}
	sc.N["repeats"] = 6
	if tier == "thorough" {
		sc.N["repeats"] = 24
	}
	return sc
}

// ---------------------------------------------------------------------------
// string hash functions (world a)

var c03hash struct {
	mu   sync.Mutex
	fn   int
	seed uint32
}

func setHashFn(fn int, seed uint32) {
	c03hash.fn, c03hash.seed = fn, seed
	if fn == 0 {
		starlark.VerifHashString = nil
		return
	}
	starlark.VerifHashString = func(s string) (uint32, bool) {
		h := uint32(2166136261) ^ seed
		for i := 0; i < len(s); i++ {
			h ^= uint32(s[i])
			h *= 16777619
		}
		switch fn {
		case 1:
			return h, true
		case 2:
			return 7, true // every string collides
		case 3:
			return h & 7, true // 3-bit hash
		case 4:
			if h&3 == 0 {
				return 0, true // the reserved value
			}
			return h, true
		case 5:
			return uint32(len(s)), true
		default:
			return ^h << 8, true // low byte always zero: every key in bucket 0
		}
	}
}

const numHashFns = 6

// ---------------------------------------------------------------------------

type c03obs struct {
	Lines []string
}

type c03loaderEntry struct {
	done bool
	g    starlark.StringDict
	err  error
	w    sched.Waitable
	ctx  *TaskCtx
}

type c03loader struct {
	mu      sync.Mutex
	sc      *Scenario
	w       *World
	entries map[string]*c03loaderEntry
	order   []string
}

func (l *c03loader) load(th *starlark.Thread, module string) (starlark.StringDict, error) {
	c := ctxOf(th)
	l.mu.Lock()
	e := l.entries[module]
	if e == nil {
		e = &c03loaderEntry{}
		l.entries[module] = e
		l.order = append(l.order, module)
		var src string
		found := false
		for _, m := range l.sc.Mods {
			if m.Name == module {
				src, found = strings.Join(m.Units, ""), true
			}
		}
		l.mu.Unlock()
		if !found {
			e.err = fmt.Errorf("no such module %q", module)
		} else {
			lc := l.w.NewCtxLocked("load:"+module, &l.mu)
			lc.T = c.T
			lc.YieldInVM = c.YieldInVM
			lc.ClockBase, lc.ClockDelta = 1_700_000_000_000_000_000, 1_000_000_007
			lc.Th.SetMaxExecutionSteps(100000)
			e.ctx = lc
			e.g, e.err = starlark.ExecFileOptions(l.sc.D.FileOptions(), lc.Th, module, src, l.w.Pre)
		}
		l.mu.Lock()
		e.done = true
		if c.T != nil {
			c.T.Sched().Signal(&e.w)
		}
		l.mu.Unlock()
		return e.g, e.err
	}
	done := e.done // read under the lock (the loading task sets it under the lock)
	l.mu.Unlock()
	if !done && c.T != nil {
		c.Probes["blocked_on_module_load"]++
		c.T.Block(&e.w)
	}
	l.mu.Lock()
	defer l.mu.Unlock()
	if !e.done {
		return nil, fmt.Errorf("module %q still loading (cycle?)", module)
	}
	return e.g, e.err
}

// NewCtxLocked is NewCtx under a mutex (ctxs may be created by several tasks).
func (w *World) NewCtxLocked(name string, mu *sync.Mutex) *TaskCtx {
	mu.Lock()
	defer mu.Unlock()
	return w.NewCtx(name)
}

func newC03World(sc *Scenario, s *sched.Sched) (*World, *c03loader) {
	w := NewWorld(s, nil)
	w.Pre = w.Predeclared()
	l := &c03loader{sc: sc, w: w, entries: map[string]*c03loaderEntry{}}
	return w, l
}

func c03ctx(w *World, l *c03loader, name string) *TaskCtx {
	c := w.NewCtxLocked(name, &l.mu)
	c.ClockBase, c.ClockDelta = 1_700_000_000_000_000_000, 1_000_000_007
	c.Th.Load = l.load
	c.Th.SetMaxExecutionSteps(60000)
	return c
}

func observe(c *TaskCtx, g starlark.StringDict, err error, l *c03loader) []string {
	out := append([]string{}, c.Transcript()...)
	out = append(out, "globals:"+CanonDict(g))
	out = append(out, "outcome:"+outcome(err))
	out = append(out, fmt.Sprintf("steps:%d", c.Th.ExecutionSteps()))
	// attribute listings of every reachable value with attributes
	seen := map[string]bool{}
	for _, n := range Walk(g) {
		if ha, ok := n.V.(starlark.HasAttrs); ok && !seen[n.V.Type()] {
			seen[n.V.Type()] = true
			out = append(out, "attrs:"+n.V.Type()+":"+strings.Join(ha.AttrNames(), ","))
		}
	}
	// transcripts of the modules it caused to be loaded are compared per module
	if l != nil {
		l.mu.Lock()
		names := make([]string, 0, len(l.entries))
		for k := range l.entries {
			names = append(names, k)
		}
		sort.Strings(names)
		for _, k := range names {
			e := l.entries[k]
			if e.ctx != nil {
				out = append(out, "module:"+k+":"+strings.Join(e.ctx.Transcript(), "|")+":"+outcome(e.err)+":"+CanonDict(e.g))
			}
		}
		l.mu.Unlock()
	}
	return out
}

// runSolo executes source alone in a fresh world.
func (p c03) runSolo(sc *Scenario, src string) ([]string, bool) {
	w, l := newC03World(sc, nil)
	c := c03ctx(w, l, "p")
	var g starlark.StringDict
	var err error
	pv := safeRun(func() { g, err = starlark.ExecFileOptions(sc.D.FileOptions(), c.Th, "p.star", src, w.Pre) })
	if pv != nil {
		return []string{fmt.Sprintf("panic:%v", pv)}, false
	}
	return observe(c, g, err, l), true
}

func (p c03) Run(sc *Scenario) *Result {
	res := NewResult()
	{
		w0, _ := newC03World(sc, nil)
		if _, err := Compile(sc.D, "p.star", sc.Source(), w0.Pre); err != nil {
			res.Invalid = true
			return res
		}
		for _, m := range sc.Mods {
			if _, err := Compile(sc.D, m.Name, strings.Join(m.Units, ""), w0.Pre); err != nil {
				res.Invalid = true
				return res
			}
		}
		for _, o := range sc.Readers {
			if _, err := Compile(sc.D, "o.star", strings.Join(o, ""), w0.Pre); err != nil {
				res.Invalid = true
				return res
			}
		}
	}
	defer setHashFn(0, 0)
	src := sc.Source()
	res.Sig = hashStr(src)
	setHashFn(0, 0)
	base, ok := p.runSolo(sc, src)
	res.Evals++
	if !ok {
		res.Count("panicking_programs", 1)
		return res // a C02 matter
	}
	res.Mix(base...)
	for _, l := range base {
		if strings.HasPrefix(l, "outcome:error") {
			res.Count("probe_program_ended_in_error_with_backtrace", 1)
			res.Nontrivial = true
		}
		if strings.HasPrefix(l, "print:") || strings.HasPrefix(l, "probe:") {
			res.Nontrivial = true
		}
	}
	cmp := func(world string, got []string) {
		if !sameStrings(got, base) {
			res.Violate("nondeterministic:"+world, "world %q differs from the baseline: %s", world, diffStrings(got, base))
		}
	}
	// (e) repetitions: Go map order
	for k := 0; k < int(sc.Knob("repeats", 6)); k++ {
		got, _ := p.runSolo(sc, src)
		res.Evals++
		res.Count("world_repeat", 1)
		cmp("repeat", got)
	}
	// (a) string-hash functions
	hseed := uint32(sc.Knob("hashseed", 1))
	for fn := 1; fn <= numHashFns; fn++ {
		if only := sc.Knob("onlyhash", 0); only != 0 && int(only) != fn {
			continue
		}
		setHashFn(fn, hseed)
		got, _ := p.runSolo(sc, src)
		res.Evals++
		res.Count("world_hashfn", 1)
		cmp(fmt.Sprintf("hashfn-%d", fn), got)
	}
	setHashFn(0, 0)
	// (c) after unrelated executions and a GC
	for _, o := range sc.Readers {
		p.runSolo(sc, strings.Join(o, ""))
		res.Evals++
	}
	runtime.GC()
	got, _ := p.runSolo(sc, src)
	res.Evals++
	res.Count("world_after_gc", 1)
	cmp("after-other-executions-and-gc", got)
	// (d) interleaved with other threads, sharing loaded modules
	if sc.Knob("nosched", 0) == 0 {
		fn := int(hseed % uint32(numHashFns+1)) // one "process": one hash function for all threads
		setHashFn(fn, hseed)
		p.runScheduled(sc, src, base, res)
		setHashFn(0, 0)
	}
	// (b) fresh OS processes with the production seed
	for k := 0; k < int(sc.Knob("fresh", 0)); k++ {
		got, err := c03child(sc, k%2 == 1)
		if err != nil {
			res.Count("fresh_process_failed_to_run", 1)
			continue
		}
		res.Evals++
		if k%2 == 1 {
			res.Count("world_fresh_process_after_other_programs", 1)
			cmp("fresh-process-after-other-programs", got)
		} else {
			res.Count("world_fresh_process", 1)
			cmp("fresh-process", got)
		}
	}
	return res
}

func (p c03) runScheduled(sc *Scenario, src string, base []string, res *Result) {
	s := sched.New(sc.Sched)
	w, l := newC03World(sc, s)
	type tk struct {
		c   *TaskCtx
		src string
		g   starlark.StringDict
		err error
		pv  any
		isP bool
	}
	var tasks []*tk
	mk := func(name, source string, isP bool) {
		c := c03ctx(w, l, name)
		c.YieldInVM = true
		c.TickPerExec = 1
		tasks = append(tasks, &tk{c: c, src: source, isP: isP})
	}
	mk("p1", src, true)
	for i, o := range sc.Readers {
		mk(fmt.Sprintf("other%d", i), strings.Join(o, ""), false)
	}
	mk("p2", src, true)
	for _, t := range tasks {
		t := t
		s.Spawn(t.c.Th.Name, func(st *sched.Task) {
			t.c.T = st
			t.pv = safeRun(func() {
				t.g, t.err = starlark.ExecFileOptions(sc.D.FileOptions(), t.c.Th, "p.star", t.src, w.Pre)
			})
		})
	}
	s.Run()
	res.Evals += int64(len(tasks))
	res.addSched(s)
	res.Count("world_interleaved", 1)
	if s.Deadlocked() || s.Overrun() {
		res.Violate("no-progress", "deadlock=%v overrun=%v", s.Deadlocked(), s.Overrun())
		return
	}
	for _, t := range tasks {
		for k, v := range t.c.Probes {
			res.Count("probe_"+k, int64(v))
		}
		if !t.isP {
			continue
		}
		if t.pv != nil {
			res.Violate("nondeterministic:interleaved", "panic %v", t.pv)
			continue
		}
		got := observe(t.c, t.g, t.err, l)
		if !sameStrings(got, base) {
			res.Violate("nondeterministic:interleaved", "%s interleaved with %d other threads differs from the baseline: %s", t.c.Th.Name, len(tasks)-1, diffStrings(got, base))
		}
	}
}

// renameStructFields rewrites the keyword names of every struct(...) call.
func renameStructFields(units []string, set int) []string {
	names := structFieldSets[set]
	out := make([]string, len(units))
	changed := false
	for ui, u := range units {
		var sb strings.Builder
		for i := 0; i < len(u); {
			j := strings.Index(u[i:], "struct(")
			if j < 0 {
				sb.WriteString(u[i:])
				break
			}
			j += i + len("struct(")
			sb.WriteString(u[i:j])
			// walk the argument list at depth 0
			depth, k, argStart, argNo := 0, j, j, 0
			inStr := byte(0)
			for ; k < len(u); k++ {
				ch := u[k]
				if inStr != 0 {
					if ch == '\\' {
						k++
					} else if ch == inStr {
						inStr = 0
					}
					continue
				}
				if ch == '"' || ch == '\'' {
					inStr = ch
					continue
				}
				if ch == '(' || ch == '[' || ch == '{' {
					depth++
				}
				if ch == ')' || ch == ']' || ch == '}' {
					if depth == 0 {
						break
					}
					depth--
				}
				if (ch == ',' && depth == 0) || k == j {
					if ch == ',' {
						argStart = k + 1
					}
					seg := u[argStart:]
					trim := len(seg) - len(strings.TrimLeft(seg, " "))
					eq := strings.Index(seg, "=")
					if eq > trim && argNo < 3 && isIdent(seg[trim:eq]) {
						// emitted below, when copying
					}
					argNo++
				}
			}
			// second pass: copy with renamed keywords
			body := u[j:k]
			parts := splitTopLevel(body)
			rename := len(parts) == 3
			for pi, part := range parts {
				if !rename {
					if pi > 0 {
						sb.WriteString(",")
					}
					sb.WriteString(part)
					continue
				}
				t := strings.TrimLeft(part, " ")
				lead := part[:len(part)-len(t)]
				if eq := strings.Index(t, "="); eq > 0 && pi < 3 && isIdent(t[:eq]) && (eq+1 >= len(t) || t[eq+1] != '=') {
					part = lead + names[pi] + t[eq:]
					changed = true
				}
				if pi > 0 {
					sb.WriteString(",")
				}
				sb.WriteString(part)
			}
			i = k
		}
		out[ui] = sb.String()
	}
	if !changed {
		return nil
	}
	return out
}

func isIdent(s string) bool {
	if s == "" {
		return false
	}
	for _, c := range s {
		if !(c == '_' || c >= 'a' && c <= 'z' || c >= 'A' && c <= 'Z' || c >= '0' && c <= '9') {
			return false
		}
	}
	return true
}

// splitTopLevel splits an argument list at depth-0 commas.
func splitTopLevel(s string) []string {
	var parts []string
	depth, start := 0, 0
	inStr := byte(0)
	for k := 0; k < len(s); k++ {
		ch := s[k]
		if inStr != 0 {
			if ch == '\\' {
				k++
			} else if ch == inStr {
				inStr = 0
			}
			continue
		}
		switch ch {
		case '"', '\'':
			inStr = ch
		case '(', '[', '{':
			depth++
		case ')', ']', '}':
			depth--
		case ',':
			if depth == 0 {
				parts = append(parts, s[start:k])
				start = k + 1
			}
		}
	}
	return append(parts, s[start:])
}

// c03child runs the program in a fresh OS process (production hash seed).
// With othersFirst the child executes the other programs before P ("after
// any earlier executions", in a process whose caches P has not yet touched).
func c03child(sc *Scenario, othersFirst bool) ([]string, error) {
	self, err := os.Executable()
	if err != nil {
		return nil, err
	}
	f, err := os.CreateTemp("", "c03-*.json")
	if err != nil {
		return nil, err
	}
	defer os.Remove(f.Name())
	f.Write(sc.JSON())
	f.Close()
	cmd := exec.Command(self, "c03child", f.Name())
	cmd.Env = append(os.Environ(), "GOMAXPROCS=1")
	if othersFirst {
		cmd.Env = append(cmd.Env, "C03_OTHERS_FIRST=1")
	}
	out, err := cmd.Output()
	if err != nil {
		return nil, err
	}
	var lines []string
	if err := json.Unmarshal(out, &lines); err != nil {
		return nil, err
	}
	return lines, nil
}

func cmdC03Child(args []string) int {
	if len(args) < 1 {
		return 2
	}
	sc, err := LoadScenario(args[0])
	if err != nil {
		return 2
	}
	setHashFn(0, 0)
	if os.Getenv("C03_OTHERS_FIRST") == "1" {
		for _, o := range sc.Readers {
			c03{}.runSolo(sc, strings.Join(o, ""))
		}
	}
	got, _ := c03{}.runSolo(sc, sc.Source())
	b, _ := json.Marshal(got)
	os.Stdout.Write(b)
	return 0
}

func (c03) Shrink(sc *Scenario) []*Scenario {
	var out []*Scenario
	if sc.Knob("nosched", 0) == 0 {
		c := sc.Clone()
		c.N["nosched"] = 1
		out = append(out, c)
	}
	if sc.Knob("repeats", 6) > 0 {
		c := sc.Clone()
		c.N["repeats"] = 0
		out = append(out, c)
	}
	for fn := 1; fn <= numHashFns; fn++ {
		if sc.Knob("onlyhash", 0) == 0 {
			c := sc.Clone()
			c.N["onlyhash"] = int64(fn)
			out = append(out, c)
		}
	}
	for i := range sc.Readers {
		c := sc.Clone()
		c.Readers = append(c.Readers[:i], c.Readers[i+1:]...)
		out = append(out, c)
	}
	return out
}

func (c03) Shape(sc *Scenario, class string) string {
	return class
}
