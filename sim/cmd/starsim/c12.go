package main

import (
	"fmt"
	"math/big"
	"reflect"
	"sort"
	"strings"
	"sync"

	"go.starlark.net/starlark"
	"go.starlark.net/syntax"
)

// C12 — dict and set behave as insertion-ordered maps under every operation
// history.
//
// A scenario is a key universe (fault-injecting simKeys with chosen hashes,
// ints sharing Int.Hash, the ints whose hash is 0 and 1, floats equal to
// ints, strings either side of 12 bytes under an adversarial string hash,
// tuples, unhashable and incomparable keys) and a history of operations on
// two dicts or two sets, each issued through the Go API or through the
// Starlark method/operator on the same object, with iterators opened/closed
// and freezes as events inside the history. After EVERY operation the objects
// are compared with an ordered association list.

type c12 struct{}

func init() { register(c12{}) }

func (c12) ID() string    { return "C12" }
func (c12) Level() string { return "exploration" }
func (c12) Rule() string {
	return "seeded operation histories (short: 1-14 ops over <= 9 keys, several sharing one 32-bit hash or only its low bits, hash 0 and hash 1; long: up to 10^4 ops over thousands of live keys with Int.Hash collisions) on two dicts or two sets, every op through the Go API or the Starlark method/operator, with iterator open/close and freeze events, in a fault-free configuration (exact equality with the model after every op) and a fault-injecting one (unhashable keys, incomparable equal-hash keys: an op may fail and leave a prefix state, never a wrong one). A case is one history; distinct = distinct hash of (keys, ops); non-trivial = at least 3 mutating ops took effect and two live keys shared a hash-table chain"
}
func (c12) Components() map[string]string {
	return map[string]string{
		"starlark.Dict / starlark.Set / hashtable / library methods / VM operators": "real",
		"keys":                  "real Int/Float/String/Tuple values + simKey (simulator type implementing Value and Comparable with scenario-chosen Hash and persistent call-back failures)",
		"string hash":           "hook 3 (adversarial functions) or production",
		"reference model":       "ordered association list (simulator)",
		"structural invariants": "reflect, read-only (list length = len, prevLink/tailLink consistency, entries in the chain their hash selects)",
	}
}
func (c12) Budget(tier string) int {
	if tier == "thorough" {
		return 5000000
	}
	return 150000
}

// ---------------------------------------------------------------------------
// keys

type simKeyVal struct {
	id         int64
	hash       uint32
	unhashable bool
	incomp     []int64
}

func (k *simKeyVal) String() string       { return fmt.Sprintf("simkey(%d)", k.id) }
func (k *simKeyVal) Type() string         { return "simkey" }
func (k *simKeyVal) Freeze()              {}
func (k *simKeyVal) Truth() starlark.Bool { return true }
func (k *simKeyVal) Hash() (uint32, error) {
	if k.unhashable {
		return 0, fmt.Errorf("unhashable: simkey(%d)", k.id)
	}
	return k.hash, nil
}
func (k *simKeyVal) CompareSameType(op syntax.Token, y starlark.Value, depth int) (bool, error) {
	o := y.(*simKeyVal)
	for _, id := range k.incomp {
		if id == o.id {
			return false, fmt.Errorf("simkey(%d) cannot be compared with simkey(%d)", k.id, o.id)
		}
	}
	for _, id := range o.incomp {
		if id == k.id {
			return false, fmt.Errorf("simkey(%d) cannot be compared with simkey(%d)", k.id, o.id)
		}
	}
	switch op {
	case syntax.EQL:
		return k.id == o.id, nil
	case syntax.NEQ:
		return k.id != o.id, nil
	}
	return false, fmt.Errorf("simkey: %s not supported", op)
}

// ukey is one key of the universe: the value, its equality class, its
// effective hash-table hash, and its fault attributes.
type ukey struct {
	v       starlark.Value
	class   string
	unhash  bool
	selfInc bool // not even comparable with itself (over-deep tuple)
	spec    KeySpec
}

func deepTuple(depth int, leaf starlark.Value) starlark.Value {
	v := leaf
	for i := 0; i < depth; i++ {
		v = starlark.Tuple{v}
	}
	return v
}

func buildKey(s KeySpec) ukey {
	switch s.Kind {
	case "sim":
		return ukey{v: &simKeyVal{id: s.ID, hash: s.Hash, unhashable: s.Unhashable, incomp: s.Incomparable}, class: fmt.Sprintf("s%d", s.ID), unhash: s.Unhashable, spec: s}
	case "int":
		return ukey{v: starlark.MakeInt64(s.ID), class: fmt.Sprintf("n%d", s.ID), spec: s}
	case "bigint": // ID + 2^32 * Hash (same Int.Hash as ID)
		b := new(big.Int).Lsh(big.NewInt(int64(s.Hash)), 32)
		b.Add(b, big.NewInt(s.ID))
		return ukey{v: starlark.MakeBigInt(b), class: "n" + b.String(), spec: s}
	case "float": // equal to the int ID
		return ukey{v: starlark.Float(float64(s.ID)), class: fmt.Sprintf("n%d", s.ID), spec: s}
	case "str":
		return ukey{v: starlark.String(s.S), class: "t" + s.S, spec: s}
	case "tuple":
		return ukey{v: starlark.Tuple{starlark.MakeInt64(s.ID), starlark.String(s.S)}, class: fmt.Sprintf("(%d,%s)", s.ID, s.S), spec: s}
	case "deep": // equal tuples nested deeper than the comparison limit
		return ukey{v: deepTuple(14, starlark.MakeInt64(s.ID)), class: fmt.Sprintf("deep%d", s.ID), selfInc: true, spec: s}
	case "list": // unhashable
		return ukey{v: starlark.NewList([]starlark.Value{starlark.MakeInt64(s.ID)}), class: fmt.Sprintf("l%d", s.ID), unhash: true, spec: s}
	}
	return ukey{v: starlark.None, class: "none", spec: s}
}

// tableHash is the hash the table files the key under (0 is reserved -> 1).
func (k ukey) tableHash() (uint32, bool) {
	h, err := k.v.Hash()
	if err != nil {
		return 0, false
	}
	if h == 0 {
		h = 1
	}
	return h, true
}

func incomparable(a, b ukey) bool {
	if a.selfInc && b.selfInc && a.class == b.class {
		return true
	}
	if a.spec.Kind == "sim" && b.spec.Kind == "sim" {
		for _, id := range a.spec.Incomparable {
			if id == b.spec.ID {
				return true
			}
		}
		for _, id := range b.spec.Incomparable {
			if id == a.spec.ID {
				return true
			}
		}
	}
	return false
}

// hash1Int is the int whose Int.Hash is exactly 1 (12582917*(x+3) == 1 mod 2^32).
func hash1Int() int64 {
	// modular inverse of 12582917 mod 2^32
	inv := uint32(1)
	for i := 0; i < 5; i++ {
		inv *= 2 - 12582917*inv
	}
	return int64(inv) - 3
}

// ---------------------------------------------------------------------------
// generator

var c12dictOps = []string{
	"go:set", "go:get", "go:delete", "go:clear", "go:len", "go:keys", "go:union",
	"st:setitem", "st:getitem", "st:get", "st:in", "st:pop", "st:popd", "st:popitem", "st:setdefault", "st:setdefault1",
	"st:update", "st:updatepairs", "st:updatekw", "st:clear", "st:or", "st:ior", "st:len", "st:dictcopy", "st:eq",
	"iter:open", "iter:close", "freeze",
}

var c12setOps = []string{
	"go:insert", "go:has", "go:delete", "go:clear", "go:len", "go:union", "go:intersection", "go:difference", "go:symdiff", "go:issubset", "go:issuperset",
	"st:add", "st:discard", "st:remove", "st:in", "st:spop", "st:supdate", "st:supdatelist", "st:clear", "st:sor", "st:sand", "st:ssub", "st:sxor",
	"st:union", "st:intersection", "st:difference", "st:symmetric_difference", "st:issubset", "st:issuperset", "st:le", "st:len", "st:eq",
	"iter:open", "iter:close", "freeze",
}

func (c12) Generate(seed uint64, i int, tier string) *Scenario {
	r := NewRng(mix64(seed, uint64(i)) ^ 0xc12)
	sc := &Scenario{Prop: "C12", Seed: seed, Index: i, N: map[string]int64{}}
	long := r.Chance(1, 2000)
	faulty := !long && r.Chance(1, 4)
	if r.Bool() {
		sc.Family = "dict"
	} else {
		sc.Family = "set"
	}
	if faulty {
		sc.N["faulty"] = 1
	}
	sc.HashFn = r.Intn(numHashFns + 1)
	sc.N["hashseed"] = int64(r.U64() >> 40)
	H := uint32(r.U64())
	if r.Chance(1, 4) {
		H = uint32(r.Intn(64))
	}
	// key universe
	add := func(k KeySpec) { sc.Keys = append(sc.Keys, k) }
	nsim := r.Range(2, 5)
	for j := 0; j < nsim; j++ {
		h := H
		switch r.Intn(6) {
		case 0:
			h = H ^ uint32(r.Range(1, 7))<<uint(r.Range(3, 12)) // same low bits only
		case 1:
			h = 0
		case 2:
			h = 1
		case 3:
			h = uint32(r.U64())
		}
		add(KeySpec{Kind: "sim", ID: int64(j), Hash: h})
	}
	k := int64(r.Range(0, 9))
	for _, ks := range []KeySpec{
		{Kind: "int", ID: k}, {Kind: "bigint", ID: k, Hash: uint32(r.Range(1, 3))}, {Kind: "float", ID: k},
		{Kind: "int", ID: -3}, {Kind: "int", ID: hash1Int()},
		{Kind: "str", S: "kw1"}, {Kind: "str", S: "a-long-string-over-12-bytes"}, {Kind: "str", S: "0123456789ab"},
		{Kind: "tuple", ID: k, S: "t"},
	} {
		if r.Chance(2, 3) {
			add(ks)
		}
	}
	if faulty {
		if r.Bool() {
			add(KeySpec{Kind: "sim", ID: 100, Hash: H, Unhashable: true})
		}
		if r.Bool() {
			add(KeySpec{Kind: "list", ID: 7})
		}
		if r.Bool() {
			add(KeySpec{Kind: "sim", ID: 101, Hash: H, Incomparable: []int64{0, 1}})
		}
		if r.Bool() {
			add(KeySpec{Kind: "deep", ID: 5})
			add(KeySpec{Kind: "deep", ID: 5})
		}
	}
	chainy := !long && r.Chance(1, 12)
	if chainy {
		// many keys in one chain: overflow buckets, chained-bucket bookkeeping
		sc.Keys = nil
		cnt := r.Range(10, 26)
		for j := 0; j < cnt; j++ {
			h := H
			if r.Chance(1, 3) {
				h = H ^ uint32(r.Range(1, 200))<<16
			}
			add(KeySpec{Kind: "sim", ID: int64(j), Hash: h})
		}
		sc.N["chainy"] = 1
	}
	growy := !long && !chainy && r.Chance(1, 20)
	if growy {
		// 14-60 keys whose hashes fall into a few residue classes: some chains
		// fill up (exactly 8, 16 entries) while others stay short, so that growth
		// happens with full chains, vacated slots and overflow buckets present
		sc.Keys = nil
		cnt := r.Pick3(r.Range(14, 20), r.Range(20, 36), r.Range(36, 60))
		bits := uint(r.Range(1, 4))
		heavy := uint32(r.Intn(1 << bits))
		for j := 0; j < cnt; j++ {
			low := uint32(r.Intn(1 << bits))
			if r.Chance(3, 5) {
				low = heavy
			}
			h := (uint32(r.U64()) &^ (1<<(bits+2) - 1)) | low
			if r.Chance(1, 2) {
				h = (uint32(j+1) << (bits + 2)) | low // distinct, dense above the residue
			}
			add(KeySpec{Kind: "sim", ID: int64(j), Hash: h})
		}
		sc.N["growy"] = 1
	}
	nk := len(sc.Keys)
	ops := c12dictOps
	if sc.Family == "set" {
		ops = c12setOps
	}
	n := r.Range(1, 14)
	if chainy {
		n = r.Range(20, 70)
	}
	if growy {
		n = r.Range(nk, 3*nk)
	}
	if long {
		n = r.Pick3(600, 3000, 10000)
		sc.N["long"] = 1
		sc.N["intkeys"] = int64(r.Pick3(40, 900, 4000))
		if r.Chance(2, 5) {
			sc.N["stride"] = int64(r.Pick3(1<<16, 1<<20, 1<<12))
			sc.N["intkeys"] = int64(r.Pick3(900, 2000, 4000))
			n = r.Pick3(3000, 6000, 10000)
		}
	}
	for j := 0; j < n; j++ {
		op := Op{Obj: r.Intn(2)}
		if r.Chance(3, 4) {
			op.Obj = 0
		}
		if long {
			// mostly inserts and deletes over a large int key space
			m := r.Intn(100)
			if sc.N["stride"] > 1 && m >= 45 && m < 60 {
				m = 0 // more inserts than deletes: the chain keeps growing
			}
			switch {
			case m < 45:
				op.Op = r.Pick([]string{"go:set", "st:setitem", "st:setdefault"})
			case m < 75:
				op.Op = r.Pick([]string{"go:delete", "st:popd", "st:popitem"})
			case m < 78:
				op.Op = "st:clear"
			default:
				op.Op = ops[r.Intn(len(ops)-3)]
			}
			if sc.Family == "set" {
				switch m := r.Intn(100); {
				case m < 45:
					op.Op = r.Pick([]string{"go:insert", "st:add"})
				case m < 75:
					op.Op = r.Pick([]string{"go:delete", "st:discard", "st:spop"})
				case m < 78:
					op.Op = "st:clear"
				default:
					op.Op = ops[r.Intn(len(ops)-3)]
				}
			}
			if (op.Op == "st:clear" || op.Op == "go:clear") && !r.Chance(1, 12) {
				// clearing every few dozen operations would keep long histories
				// small: most of them must build tables of hundreds or thousands
				op.Op = r.Pick([]string{"go:set", "st:setitem"})
				if sc.Family == "set" {
					op.Op = r.Pick([]string{"go:insert", "st:add"})
				}
			}
			op.A = int64(1000 + r.Intn(int(sc.N["intkeys"])))
		} else {
			op.Op = ops[r.Intn(len(ops))]
			if chainy && r.Chance(1, 2) {
				if sc.Family == "set" {
					op.Op = r.Pick([]string{"go:insert", "st:add", "st:supdatelist", "go:issubset", "st:issubset", "st:le", "st:eq", "go:issuperset"})
				} else {
					op.Op = r.Pick([]string{"go:set", "st:setitem", "st:updatepairs", "st:eq", "st:or"})
				}
			}
			if growy && r.Chance(4, 5) {
				ins, del := []string{"go:set", "st:setitem", "st:setdefault"}, []string{"go:delete", "st:popd", "st:popitem"}
				if sc.Family == "set" {
					ins, del = []string{"go:insert", "st:add"}, []string{"go:delete", "st:discard", "st:spop"}
				}
				if r.Chance(7, 10) {
					op.Op = r.Pick(ins)
				} else {
					op.Op = r.Pick(del)
				}
			}
			if strings.HasPrefix(op.Op, "iter:") || op.Op == "freeze" {
				if !r.Chance(1, 3) || growy {
					op.Op = ops[r.Intn(len(ops)-3)]
				}
			}
			op.A = int64(r.Intn(nk))
		}
		op.B = int64(j*10 + 1) // every written value is unique
		nargs := r.Range(0, 3)
		if chainy {
			nargs = r.Range(0, 14)
		}
		if growy {
			nargs = r.Range(0, 6)
		}
		for a := 0; a < nargs; a++ {
			if long {
				op.Args = append(op.Args, int64(1000+r.Intn(int(sc.N["intkeys"]))))
			} else {
				op.Args = append(op.Args, int64(r.Intn(nk)))
			}
		}
		sc.Ops = append(sc.Ops, op)
	}
	return sc
}

// ---------------------------------------------------------------------------
// model

type mEntry struct {
	k int // universe index
	v int64
}

type mColl struct {
	ents   []mEntry
	frozen bool
	iters  int
}

func (m *mColl) clone() *mColl {
	c := &mColl{frozen: m.frozen, iters: m.iters}
	c.ents = append([]mEntry{}, m.ents...)
	return c
}

type c12run struct {
	sc          *Scenario
	keys        map[int]ukey
	isSet       bool
	objs        [2]starlark.Value
	model       [2]*mColl
	iters       [2][]starlark.Iterator
	th          *starlark.Thread
	res         *Result
	faulty      bool
	long        bool
	opIdx       int
	mutations   int
	chainShared bool
}

func (x *c12run) key(i int) ukey {
	if k, ok := x.keys[i]; ok {
		return k
	}
	// generated int key (long histories): some share Int.Hash with others
	n := int64(i - 1000)
	var k ukey
	if stride := x.sc.Knob("stride", 1); stride > 1 {
		// ints whose Int.Hash agrees in its low bits: hundreds or thousands of
		// live keys in ONE bucket chain (chains of more than 255 entries, growth
		// with such a chain present)
		k = buildKey(KeySpec{Kind: "int", ID: n*stride - 3})
	} else if n%5 == 0 {
		k = buildKey(KeySpec{Kind: "bigint", ID: n / 5, Hash: uint32(1 + n%3)})
	} else {
		k = buildKey(KeySpec{Kind: "int", ID: n})
	}
	x.keys[i] = k
	return k
}

func (m *mColl) find(x *c12run, k ukey) int {
	for i, e := range m.ents {
		if x.key(e.k).class == k.class {
			return i
		}
	}
	return -1
}

// callbackFault classifies what the key's call-backs do to a single-key
// operation on collection m: "must" fail, "may" fail, or "" (no fault).
func (x *c12run) callbackFault(m *mColl, k ukey) string {
	if k.unhash {
		return "must"
	}
	h, _ := k.tableHash()
	present := m.find(x, k) >= 0
	if k.selfInc && present {
		return "must"
	}
	for _, e := range m.ents {
		o := x.key(e.k)
		if o.class == k.class {
			continue
		}
		oh, _ := o.tableHash()
		if oh == h && incomparable(k, o) {
			if present {
				return "may"
			}
			return "must"
		}
	}
	return ""
}

// ---------------------------------------------------------------------------
// Starlark-route operations: one compiled template per op kind

var (
	c12progMu sync.Mutex
	c12progs  = map[string]*starlark.Program{}
)

var c12tmpl = map[string]string{
	"st:setitem":              "def op():\n    D[K] = V\n    return None\nR = op()\n",
	"st:getitem":              "R = D[K]\n",
	"st:get":                  "R = D.get(K)\n",
	"st:in":                   "R = K in D\n",
	"st:pop":                  "R = D.pop(K)\n",
	"st:popd":                 "R = D.pop(K, \"absent\")\n",
	"st:popitem":              "R = D.popitem()\n",
	"st:setdefault":           "R = D.setdefault(K, V)\n",
	"st:setdefault1":          "R = D.setdefault(K)\n",
	"st:update":               "R = D.update(E)\n",
	"st:updatepairs":          "R = D.update(P)\n",
	"st:updatekw":             "R = D.update(kw1=V)\n",
	"st:clear":                "R = D.clear()\n",
	"st:or":                   "R = (D | E).items()\n",
	"st:ior":                  "def op(d, e):\n    d |= e\n    return None\nR = op(D, E)\n",
	"st:len":                  "R = len(D)\n",
	"st:dictcopy":             "R = dict(D).items() + {k: v for k, v in D.items()}.items()\n",
	"st:eq":                   "R = (D == E, D != E)\n",
	"st:order":                "R = ([k for k in D], D.keys(), D.values(), D.items())\n",
	"st:sorder":               "R = ([k for k in D], list(D))\n",
	"st:add":                  "R = D.add(K)\n",
	"st:discard":              "R = D.discard(K)\n",
	"st:remove":               "R = D.remove(K)\n",
	"st:spop":                 "R = D.pop()\n",
	"st:supdate":              "R = D.update(E)\n",
	"st:supdatelist":          "R = D.update(L)\n",
	"st:sor":                  "R = list(D | E)\n",
	"st:sand":                 "R = list(D & E)\n",
	"st:ssub":                 "R = list(D - E)\n",
	"st:sxor":                 "R = list(D ^ E)\n",
	"st:union":                "R = list(D.union(L))\n",
	"st:intersection":         "R = list(D.intersection(L))\n",
	"st:difference":           "R = list(D.difference(L))\n",
	"st:symmetric_difference": "R = list(D.symmetric_difference(E))\n",
	"st:issubset":             "R = D.issubset(L)\n",
	"st:issuperset":           "R = D.issuperset(L)\n",
	"st:le":                   "R = (D <= E, D < E, D >= E, D > E)\n",
}

func (x *c12run) star(op string, env starlark.StringDict) (starlark.Value, error) {
	c12progMu.Lock()
	pg := c12progs[op]
	if pg == nil {
		names := map[string]bool{"D": true, "E": true, "K": true, "V": true, "L": true, "P": true}
		_, p, err := starlark.SourceProgramOptions(allOn.FileOptions(), op, c12tmpl[op], func(n string) bool { return names[n] })
		if err != nil {
			c12progMu.Unlock()
			return nil, fmt.Errorf("template %s: %v", op, err)
		}
		pg = p
		c12progs[op] = pg
	}
	c12progMu.Unlock()
	x.th.Uncancel()
	x.th.SetMaxExecutionSteps(x.th.ExecutionSteps() + 2000000)
	g, err := pg.Init(x.th, env)
	if err != nil {
		return nil, err
	}
	return g["R"], nil
}

// ---------------------------------------------------------------------------

func (p c12) Run(sc *Scenario) *Result {
	res := NewResult()
	x := &c12run{sc: sc, keys: map[int]ukey{}, isSet: sc.Family == "set", res: res, faulty: sc.Knob("faulty", 0) == 1, long: sc.Knob("long", 0) == 1}
	for i, ks := range sc.Keys {
		x.keys[i] = buildKey(ks)
	}
	if len(sc.Keys) == 0 && !x.long {
		res.Invalid = true
		return res
	}
	defer setHashFn(0, 0)
	setHashFn(sc.HashFn, uint32(sc.Knob("hashseed", 1)))
	x.th = &starlark.Thread{Name: "c12"}
	for o := 0; o < 2; o++ {
		if x.isSet {
			x.objs[o] = starlark.NewSet(0)
		} else {
			x.objs[o] = new(starlark.Dict)
		}
		x.model[o] = &mColl{}
	}
	res.Sig = hashStr(string(sc.JSON()))
	res.Evals = 1
	for i, op := range sc.Ops {
		x.opIdx = i
		if op.Obj < 0 || op.Obj > 1 {
			op.Obj = 0
		}
		if !x.long && int(op.A) >= len(sc.Keys) {
			op.A = 0
		}
		for a := range op.Args {
			if !x.long && int(op.Args[a]) >= len(sc.Keys) {
				op.Args[a] = 0
			}
		}
		x.apply(op)
		if len(res.Violations) > 0 {
			break
		}
		if !x.long || i%97 == 0 || i == len(sc.Ops)-1 {
			x.compareAll(op)
			if len(res.Violations) > 0 {
				break
			}
		}
	}
	for o := 0; o < 2; o++ {
		for _, it := range x.iters[o] {
			it.Done()
		}
	}
	for o := 0; o < 2; o++ {
		res.Mix(fmt.Sprint(x.snapshot(x.objs[o])))
	}
	if x.mutations >= 3 && x.chainShared {
		res.Nontrivial = true
	}
	res.Count("ops", int64(len(sc.Ops)))
	return res
}

func (x *c12run) fail(class, format string, args ...any) {
	op := x.sc.Ops[x.opIdx]
	x.res.Violate(class, "op %d %s(obj=%d key=%s args=%v val=%d): %s", x.opIdx, op.Op, op.Obj, x.describeKey(int(op.A)), op.Args, op.B, fmt.Sprintf(format, args...))
}

func (x *c12run) describeKey(i int) string {
	k := x.key(i)
	if h, ok := k.tableHash(); ok {
		return fmt.Sprintf("%s#%x", k.class, h)
	}
	return k.class + "#unhashable"
}

func valInt(v starlark.Value) (int64, bool) {
	if i, ok := v.(starlark.Int); ok {
		if n, ok := i.Int64(); ok {
			return n, true
		}
	}
	return 0, false
}

// valOf is the model encoding of a stored value: its int, or -999 (None).
func valOf(v starlark.Value) int64 {
	if n, ok := valInt(v); ok {
		return n
	}
	return -999
}

// classOf maps an actual key value back to its universe class.
func (x *c12run) classOf(v starlark.Value) string {
	switch k := v.(type) {
	case *simKeyVal:
		return fmt.Sprintf("s%d", k.id)
	case starlark.Int:
		return "n" + k.String()
	case starlark.Float:
		if n, err := starlark.NumberToInt(k); err == nil {
			return "n" + n.String()
		}
		return "f" + k.String()
	case starlark.String:
		return "t" + string(k)
	case starlark.Tuple:
		if len(k) == 2 {
			if n, ok := valInt(k[0]); ok {
				if s, ok := k[1].(starlark.String); ok {
					return fmt.Sprintf("(%d,%s)", n, string(s))
				}
			}
		}
		d := 0
		var cur starlark.Value = k
		for {
			t, ok := cur.(starlark.Tuple)
			if !ok || len(t) != 1 {
				break
			}
			cur = t[0]
			d++
		}
		if n, ok := valInt(cur); ok && d > 0 {
			return fmt.Sprintf("deep%d", n)
		}
	case *starlark.List:
		if k.Len() == 1 {
			if n, ok := valInt(k.Index(0)); ok {
				return fmt.Sprintf("l%d", n)
			}
		}
	}
	return "?" + v.String()
}

// lockedErr: the model's collection cannot be mutated right now.
func (m *mColl) locked() bool { return m.frozen || m.iters > 0 }

// apply performs one op on the real object and on the model and compares
// the op's own result.
func (x *c12run) apply(op Op) {
	o := op.Obj
	obj, other := x.objs[o], x.objs[1-o]
	m, mo := x.model[o], x.model[1-o]
	k := x.key(int(op.A))
	v := starlark.MakeInt64(op.B)
	var largs []ukey
	for _, a := range op.Args {
		largs = append(largs, x.key(int(a)))
	}
	env := starlark.StringDict{"D": obj, "E": other, "K": k.v, "V": v}
	{
		var l []starlark.Value
		var pr []starlark.Value
		for j, a := range largs {
			l = append(l, a.v)
			pr = append(pr, starlark.Tuple{a.v, starlark.MakeInt64(op.B + int64(j) + 1)})
		}
		env["L"] = starlark.NewList(l)
		env["P"] = starlark.NewList(pr)
	}
	fault := ""
	if x.faulty {
		fault = x.callbackFault(m, k)
	}
	// helper: check an op that is an error in the model
	expectErr := func(err error, why string) bool {
		if err == nil {
			x.fail("missing-error", "succeeded although %s", why)
			return false
		}
		return true
	}
	// single-key mutation through either route; apply is the model effect
	insertsKey := false // set by the cases that would store k itself
	single := func(err error, would bool, effect func()) {
		switch {
		case fault != "" && err != nil:
			// the key's call-back failed: the op reports it; compareAll checks nothing changed
		case fault == "must" && insertsKey:
			x.fail("missing-error", "stored a key whose Hash/equality call-back fails")
		case m.locked() && would:
			expectErr(err, "the collection is frozen or being iterated")
		case m.locked():
			// no-op on a locked collection: either outcome, no change
		case err != nil:
			x.fail("unexpected-error", "%v", err)
		default:
			effect()
			x.mutations++
		}
	}
	switch op.Op {
	// ---------------- dict, Go API
	case "go:set", "st:setitem":
		var err error
		if op.Op == "go:set" {
			err = obj.(*starlark.Dict).SetKey(k.v, v)
		} else {
			_, err = x.star(op.Op, env)
		}
		insertsKey = m.find(x, k) < 0
		single(err, true, func() {
			if i := m.find(x, k); i >= 0 {
				m.ents[i].v = op.B
			} else {
				m.ents = append(m.ents, mEntry{int(op.A), op.B})
			}
		})
	case "go:get", "st:get", "st:getitem", "st:in":
		i := m.find(x, k)
		var got starlark.Value
		var found bool
		var err error
		switch op.Op {
		case "go:get":
			got, found, err = obj.(*starlark.Dict).Get(k.v)
		case "st:get":
			got, err = x.star(op.Op, env)
			found = err == nil && (got != starlark.None || (i >= 0 && m.ents[i].v == -999))
		case "st:getitem":
			got, err = x.star(op.Op, env)
			found = err == nil
			if err != nil && strings.Contains(err.Error(), "not in dict") {
				err = nil
			}
		case "st:in":
			got, err = x.star(op.Op, env)
			found = got == starlark.True
			if fault != "" {
				return // `in` swallows call-back errors: nothing to assert under faults
			}
			if err != nil {
				x.fail("unexpected-error", "%v", err)
			} else if found != (i >= 0) {
				x.fail("wrong-membership", "in returned %v, model has %v", found, i >= 0)
			}
			return
		}
		switch {
		case fault != "" && err != nil:
		case k.selfInc && fault != "":
			// a key that is not even comparable with itself: nothing to assert on success
		case err != nil:
			x.fail("unexpected-error", "%v", err)
		case found != (i >= 0):
			x.fail("wrong-membership", "lookup found=%v, model has %v", found, i >= 0)
		case found:
			if valOf(got) != m.ents[i].v {
				x.fail("wrong-value", "lookup returned %v, model has %d", got, m.ents[i].v)
			}
		}
	case "go:delete", "st:pop", "st:popd", "st:discard", "st:remove":
		i := m.find(x, k)
		var got starlark.Value
		var found bool
		var err error
		switch op.Op {
		case "go:delete":
			if x.isSet {
				found, err = obj.(*starlark.Set).Delete(k.v)
			} else {
				got, found, err = obj.(*starlark.Dict).Delete(k.v)
			}
		default:
			got, err = x.star(op.Op, env)
			found = err == nil
			if op.Op == "st:popd" && got == starlark.String("absent") {
				found = false
			}
			if op.Op == "st:discard" {
				found = i >= 0 // discard reports nothing
			}
			if err != nil && fault == "" && !m.locked() && i < 0 && (strings.Contains(err.Error(), "missing key")) {
				err, found = nil, false // pop/remove of an absent key is an error by definition
			}
		}
		single(err, i >= 0, func() {
			if found != (i >= 0) {
				x.fail("wrong-membership", "delete found=%v, model has %v", found, i >= 0)
				return
			}
			if i >= 0 {
				if got != nil && !x.isSet && op.Op != "st:discard" {
					if valOf(got) != m.ents[i].v {
						x.fail("wrong-value", "delete returned %v, model has %d", got, m.ents[i].v)
					}
				}
				m.ents = append(m.ents[:i:i], m.ents[i+1:]...)
			} else {
				x.mutations-- // nothing happened
			}
		})
	case "go:clear", "st:clear":
		var err error
		if op.Op == "go:clear" {
			if x.isSet {
				err = obj.(*starlark.Set).Clear()
			} else {
				err = obj.(*starlark.Dict).Clear()
			}
		} else {
			_, err = x.star(op.Op, env)
		}
		fault = ""
		single(err, len(m.ents) > 0, func() { m.ents = nil })
	case "go:len", "st:len":
		n := 0
		if op.Op == "go:len" {
			n = starlark.Len(obj)
		} else {
			r, err := x.star(op.Op, env)
			if err != nil {
				x.fail("unexpected-error", "%v", err)
				return
			}
			n64, _ := valInt(r)
			n = int(n64)
		}
		if n != len(m.ents) {
			x.fail("wrong-length", "len=%d, model %d", n, len(m.ents))
		}
	case "go:keys":
		x.checkOrder("Keys()", obj.(*starlark.Dict).Keys(), m, nil)
	case "st:popitem", "st:spop":
		r, err := x.star(op.Op, env)
		fault = ""
		if len(m.ents) > 0 {
			f := x.key(m.ents[0].k)
			if f.selfInc {
				fault = "must"
			} else if x.faulty && x.callbackFault(m, f) != "" {
				fault = "may"
			}
		}
		if len(m.ents) == 0 && !m.locked() {
			expectErr(err, "the collection is empty")
			return
		}
		single(err, len(m.ents) > 0, func() {
			first := m.ents[0]
			var gk starlark.Value = r
			if t, ok := r.(starlark.Tuple); ok && !x.isSet && len(t) == 2 {
				gk = t[0]
				if valOf(t[1]) != first.v {
					x.fail("wrong-value", "popitem returned value %v, model has %d", t[1], first.v)
				}
			}
			if x.classOf(gk) != x.key(first.k).class {
				x.fail("wrong-order", "pop returned key %v, the first-inserted key is %s", gk, x.key(first.k).class)
			}
			m.ents = append([]mEntry{}, m.ents[1:]...)
		})
	case "st:setdefault", "st:setdefault1":
		r, err := x.star(op.Op, env)
		i := m.find(x, k)
		insertsKey = i < 0
		single(err, i < 0, func() {
			if i >= 0 {
				if valOf(r) != m.ents[i].v {
					x.fail("wrong-value", "setdefault returned %v, model has %d", r, m.ents[i].v)
				}
				x.mutations--
				return
			}
			val := op.B
			if op.Op == "st:setdefault1" {
				val = -999 // None
				if r != starlark.None {
					x.fail("wrong-value", "setdefault(k) returned %v, want None", r)
				}
			}
			m.ents = append(m.ents, mEntry{int(op.A), val})
		})
	// ---------------- multi-element mutations (prefix rule under faults)
	case "st:update", "st:ior", "st:supdate", "st:updatepairs", "st:supdatelist", "st:updatekw":
		var elems []mEntry
		switch op.Op {
		case "st:update", "st:ior", "st:supdate":
			elems = append(elems, mo.ents...)
		case "st:updatepairs", "st:supdatelist":
			for j, a := range op.Args {
				elems = append(elems, mEntry{int(a), op.B + int64(j) + 1})
			}
		case "st:updatekw":
			// key "kw1" must be in the universe
			idx := -1
			for i2, ks := range x.sc.Keys {
				if ks.Kind == "str" && ks.S == "kw1" {
					idx = i2
				}
			}
			if idx < 0 {
				return
			}
			elems = append(elems, mEntry{idx, op.B})
		}
		if o == 1 && (op.Op == "st:update" || op.Op == "st:ior" || op.Op == "st:supdate") && false {
			return
		}
		_, err := x.star(op.Op, env)
		x.multi(err, m, elems)
	// ---------------- derived collections
	case "go:union", "st:or", "st:sor", "st:union", "st:dictcopy":
		var want []mEntry
		want = append(want, m.ents...)
		var src []mEntry
		switch op.Op {
		case "st:union":
			for _, a := range op.Args {
				src = append(src, mEntry{int(a), 0})
			}
		case "st:dictcopy":
		default:
			src = mo.ents
		}
		bad := false
		for _, e := range src {
			ek := x.key(e.k)
			if ek.unhash {
				bad = true
				break
			}
			found := false
			for i := range want {
				if x.key(want[i].k).class == ek.class {
					want[i].v = e.v
					found = true
				}
			}
			if !found {
				want = append(want, e)
			}
		}
		var r starlark.Value
		var err error
		switch op.Op {
		case "go:union":
			if x.isSet {
				it := other.(*starlark.Set).Iterate()
				r, err = obj.(*starlark.Set).Union(it)
				it.Done()
			} else {
				r = obj.(*starlark.Dict).Union(other.(*starlark.Dict))
			}
		default:
			r, err = x.star(op.Op, env)
		}
		if x.faulty && (bad || x.anyFaultIn(m, src) || x.anyFaultIn(m, m.ents)) {
			if err == nil && bad {
				x.fail("missing-error", "union with an unhashable element succeeded")
			}
			return
		}
		if err != nil {
			x.fail("unexpected-error", "%v", err)
			return
		}
		if op.Op == "st:dictcopy" {
			want = append(want, want...)
		}
		x.checkDerived(op.Op, r, want, true)
	case "go:intersection", "go:difference", "go:symdiff", "st:sand", "st:ssub", "st:sxor", "st:intersection", "st:difference", "st:symmetric_difference":
		var src []mEntry
		useArgs := op.Op == "st:intersection" || op.Op == "st:difference"
		if useArgs {
			for _, a := range op.Args {
				src = append(src, mEntry{int(a), 0})
			}
		} else {
			src = mo.ents
		}
		has := func(list []mEntry, k ukey) bool {
			for _, e := range list {
				if x.key(e.k).class == k.class {
					return true
				}
			}
			return false
		}
		var want []mEntry
		ordered := true
		switch op.Op {
		case "go:intersection", "st:sand", "st:intersection":
			for _, e := range m.ents {
				if has(src, x.key(e.k)) {
					want = append(want, e)
				}
			}
			ordered = false // membership only (see DESIGN.md: spec/implementation order discrepancy)
		case "go:difference", "st:ssub", "st:difference":
			for _, e := range m.ents {
				if !has(src, x.key(e.k)) {
					want = append(want, e)
				}
			}
		default: // symmetric difference: S-not-E in S order, then E-not-S in E order
			for _, e := range m.ents {
				if !has(src, x.key(e.k)) {
					want = append(want, e)
				}
			}
			for _, e := range src {
				if !has(m.ents, x.key(e.k)) && !has(want, x.key(e.k)) {
					want = append(want, e)
				}
			}
		}
		var r starlark.Value
		var err error
		if strings.HasPrefix(op.Op, "go:") {
			it := other.(*starlark.Set).Iterate()
			switch op.Op {
			case "go:intersection":
				r, err = obj.(*starlark.Set).Intersection(it)
			case "go:difference":
				r, err = obj.(*starlark.Set).Difference(it)
			default:
				r, err = obj.(*starlark.Set).SymmetricDifference(it)
			}
			it.Done()
		} else {
			r, err = x.star(op.Op, env)
		}
		if x.faulty && (x.anyFaultIn(m, src) || x.anyFaultIn(m, m.ents) || x.anyFaultIn(mo, src)) {
			return
		}
		if err != nil {
			x.fail("unexpected-error", "%v", err)
			return
		}
		x.checkDerived(op.Op, r, want, ordered)
	case "go:issubset", "go:issuperset", "st:issubset", "st:issuperset", "st:le", "st:eq", "go:has", "st:add", "go:insert":
		x.setMisc(op, obj, other, m, mo, k, env, fault, &insertsKey, single)
	// ---------------- events
	case "iter:open":
		if it := starlark.Iterate(obj); it != nil && len(x.iters[o]) < 2 {
			x.iters[o] = append(x.iters[o], it)
			if !m.frozen {
				m.iters++
			}
		} else if it != nil {
			it.Done()
		}
	case "iter:close":
		if n := len(x.iters[o]); n > 0 {
			x.iters[o][n-1].Done()
			x.iters[o] = x.iters[o][:n-1]
			if !m.frozen && m.iters > 0 {
				m.iters--
			}
		}
	case "freeze":
		obj.Freeze()
		m.frozen = true
	}
}

func (x *c12run) anyFaultIn(m *mColl, ents []mEntry) bool {
	for _, e := range ents {
		k := x.key(e.k)
		if k.unhash || k.selfInc || len(k.spec.Incomparable) > 0 {
			return true
		}
		for _, o := range m.ents {
			if incomparable(k, x.key(o.k)) {
				return true
			}
		}
	}
	return false
}

// multi handles update-like operations: elements are applied in order; under
// faults the operation may stop with an error after a prefix.
func (x *c12run) multi(err error, m *mColl, elems []mEntry) {
	apply := func(mm *mColl, e mEntry) {
		k := x.key(e.k)
		if i := mm.find(x, k); i >= 0 {
			if !x.isSet {
				mm.ents[i].v = e.v
			}
		} else {
			v := e.v
			if x.isSet {
				v = 0
			}
			mm.ents = append(mm.ents, mEntry{e.k, v})
		}
	}
	would := false
	{
		t := m.clone()
		for _, e := range elems {
			apply(t, e)
		}
		would = !sameEnts(t.ents, m.ents)
	}
	if m.locked() {
		if would && err == nil && !x.faulty {
			x.fail("missing-error", "multi-element update of a frozen or iterated collection succeeded")
		}
		return // state must be unchanged: compareAll checks it
	}
	if !x.faulty {
		if err != nil {
			x.fail("unexpected-error", "%v", err)
			return
		}
		for _, e := range elems {
			apply(m, e)
		}
		if would {
			x.mutations++
		}
		return
	}
	// fault-injecting configuration: accept the state after any prefix that
	// ends at or before the first element whose call-backs must fail.
	var cands []*mColl
	t := m.clone()
	cands = append(cands, t.clone())
	mustAt := -1
	for i, e := range elems {
		f := x.callbackFault(t, x.key(e.k))
		if f == "must" {
			mustAt = i
			break
		}
		apply(t, e)
		cands = append(cands, t.clone())
	}
	if mustAt >= 0 && err == nil {
		x.fail("missing-error", "multi-element update reported success although element %d (%s) cannot be stored or matched; a success must mean that every element was applied", mustAt, x.key(elems[mustAt].k).class)
		return
	}
	got := x.snapshot(x.objs[x.sc.Ops[x.opIdx].Obj])
	for i := len(cands) - 1; i >= 0; i-- {
		if err == nil && i != len(cands)-1 {
			break // success must mean "all applied"
		}
		if x.sameAsModel(got, cands[i]) {
			*m = *cands[i]
			return
		}
	}
	x.fail("wrong-state-after-failed-update", "error=%v; the collection equals no prefix state of the update", err)
}

func sameEnts(a, b []mEntry) bool {
	if len(a) != len(b) {
		return false
	}
	for i := range a {
		if a[i] != b[i] {
			return false
		}
	}
	return true
}

type kv struct {
	class string
	v     int64
}

func (x *c12run) snapshot(obj starlark.Value) []kv {
	var out []kv
	switch c := obj.(type) {
	case *starlark.Dict:
		for _, it := range c.Items() {
			out = append(out, kv{x.classOf(it[0]), valOf(it[1])})
		}
	case *starlark.Set:
		for e := range c.Elements() {
			out = append(out, kv{x.classOf(e), 0})
		}
	}
	return out
}

func (x *c12run) sameAsModel(got []kv, m *mColl) bool {
	if len(got) != len(m.ents) {
		return false
	}
	for i, e := range m.ents {
		v := e.v
		if x.isSet {
			v = 0
		}
		if got[i].class != x.key(e.k).class || got[i].v != v {
			return false
		}
	}
	return true
}

func (x *c12run) setMisc(op Op, obj, other starlark.Value, m, mo *mColl, k ukey, env starlark.StringDict, fault string, insertsKey *bool, single func(error, bool, func())) {
	has := func(list []mEntry, k ukey) bool {
		for _, e := range list {
			if x.key(e.k).class == k.class {
				return true
			}
		}
		return false
	}
	switch op.Op {
	case "go:insert", "st:add":
		var err error
		if op.Op == "go:insert" {
			err = obj.(*starlark.Set).Insert(k.v)
		} else {
			_, err = x.star(op.Op, env)
		}
		i := m.find(x, k)
		*insertsKey = i < 0
		single(err, i < 0, func() {
			if i < 0 {
				m.ents = append(m.ents, mEntry{int(op.A), 0})
			} else {
				x.mutations--
			}
		})
	case "go:has":
		found, err := obj.(*starlark.Set).Has(k.v)
		switch {
		case fault != "" && err != nil:
		case k.selfInc && fault != "":
		case err != nil:
			x.fail("unexpected-error", "%v", err)
		case found != (m.find(x, k) >= 0):
			x.fail("wrong-membership", "Has=%v model %v", found, m.find(x, k) >= 0)
		}
	default:
		// relations between the two sets / a list of keys
		var src []mEntry
		useArgs := op.Op == "st:issubset" || op.Op == "st:issuperset"
		if useArgs {
			for _, a := range op.Args {
				src = append(src, mEntry{int(a), 0})
			}
		} else {
			src = mo.ents
		}
		if x.faulty && (x.anyFaultIn(m, src) || x.anyFaultIn(m, m.ents)) {
			// only run it: must not corrupt anything
			if strings.HasPrefix(op.Op, "st:") {
				x.star(op.Op, env)
			}
			return
		}
		sub, sup := true, true
		for _, e := range m.ents {
			if !has(src, x.key(e.k)) {
				sub = false
			}
		}
		for _, e := range src {
			if !has(m.ents, x.key(e.k)) {
				sup = false
			}
		}
		distinct := map[string]bool{}
		for _, e := range src {
			distinct[x.key(e.k).class] = true
		}
		eq := sub && sup
		var got, want string
		switch op.Op {
		case "go:issubset":
			it := other.(*starlark.Set).Iterate()
			b, err := obj.(*starlark.Set).IsSubset(it)
			it.Done()
			got, want = fmt.Sprint(b, err), fmt.Sprint(sub, nil)
		case "go:issuperset":
			it := other.(*starlark.Set).Iterate()
			b, err := obj.(*starlark.Set).IsSuperset(it)
			it.Done()
			got, want = fmt.Sprint(b, err), fmt.Sprint(sup, nil)
		case "st:issubset":
			r, err := x.star(op.Op, env)
			got, want = fmt.Sprint(r, err), fmt.Sprint(starlark.Bool(sub), nil)
		case "st:issuperset":
			r, err := x.star(op.Op, env)
			got, want = fmt.Sprint(r, err), fmt.Sprint(starlark.Bool(sup), nil)
		case "st:le":
			r, err := x.star(op.Op, env)
			proper := len(distinct) != len(m.ents)
			got = fmt.Sprint(r, err)
			want = fmt.Sprint(starlark.Tuple{starlark.Bool(sub), starlark.Bool(sub && proper), starlark.Bool(sup), starlark.Bool(sup && proper)}, nil)
		case "st:eq":
			r, err := x.star(op.Op, env)
			if !x.isSet {
				// dict equality also compares values
				eq = len(m.ents) == len(mo.ents)
				for _, e := range m.ents {
					j := mo.find(x, x.key(e.k))
					if j < 0 || mo.ents[j].v != e.v {
						eq = false
					}
				}
			}
			got, want = fmt.Sprint(r, err), fmt.Sprint(starlark.Tuple{starlark.Bool(eq), starlark.Bool(!eq)}, nil)
		}
		if got != want {
			x.fail("wrong-relation", "got %s want %s", got, want)
		}
	}
}

// checkDerived compares a derived collection (list of keys, list of pairs,
// dict or set) with the expected entries.
func (x *c12run) checkDerived(what string, r starlark.Value, want []mEntry, ordered bool) {
	var got []kv
	withVals := false
	switch c := r.(type) {
	case *starlark.Dict:
		got = x.snapshot(c)
		withVals = true
	case *starlark.Set:
		got = x.snapshot(c)
	case *starlark.List:
		for i := 0; i < c.Len(); i++ {
			if t, ok := c.Index(i).(starlark.Tuple); ok && len(t) == 2 && !x.isSet {
				got = append(got, kv{x.classOf(t[0]), valOf(t[1])})
				withVals = true
			} else {
				got = append(got, kv{x.classOf(c.Index(i)), 0})
			}
		}
	default:
		x.fail("wrong-derived", "%s returned %s", what, r.Type())
		return
	}
	var exp []kv
	for _, e := range want {
		v := e.v
		if !withVals || x.isSet {
			v = 0
		}
		exp = append(exp, kv{x.key(e.k).class, v})
	}
	if !ordered {
		sort.Slice(got, func(i, j int) bool { return got[i].class < got[j].class })
		sort.Slice(exp, func(i, j int) bool { return exp[i].class < exp[j].class })
	}
	if fmt.Sprint(got) != fmt.Sprint(exp) {
		x.fail("wrong-derived", "%s produced %v, the ordered association list gives %v", what, got, exp)
		return
	}
	// the derived collection is a dict/set in its own right: every element it
	// lists is found by lookup, every other universe key is not, and its length
	// is the number of elements it lists
	var has func(k starlark.Value) (bool, error)
	n := -1
	switch c := r.(type) {
	case *starlark.Dict:
		has = func(k starlark.Value) (bool, error) { _, f, err := c.Get(k); return f, err }
		n = c.Len()
	case *starlark.Set:
		has = c.Has
		n = c.Len()
	}
	if has == nil {
		return
	}
	if n != len(want) {
		x.fail("wrong-derived", "%s: Len()=%d but it lists %d elements", what, n, len(want))
		return
	}
	in := map[string]bool{}
	for _, e := range want {
		in[x.key(e.k).class] = true
		if f, err := has(x.key(e.k).v); err != nil || !f {
			x.fail("wrong-derived", "%s lists %s but lookup does not find it (err=%v)", what, x.key(e.k).class, err)
			return
		}
	}
	if !x.long {
		for i := range x.sc.Keys {
			k := x.key(i)
			if k.unhash || k.selfInc || in[k.class] {
				continue
			}
			if f, err := has(k.v); err == nil && f {
				x.fail("wrong-derived", "%s does not list %s but lookup finds it", what, k.class)
				return
			}
		}
	}
}

func (x *c12run) checkOrder(what string, keys []starlark.Value, m *mColl, vals []int64) {
	if len(keys) != len(m.ents) {
		x.fail("wrong-order", "%s yields %d keys, model has %d", what, len(keys), len(m.ents))
		return
	}
	for i, k := range keys {
		if x.classOf(k) != x.key(m.ents[i].k).class {
			var g, w []string
			for _, kk := range keys {
				g = append(g, x.classOf(kk))
			}
			for _, e := range m.ents {
				w = append(w, x.key(e.k).class)
			}
			x.fail("wrong-order", "%s yields %v, insertion order is %v", what, g, w)
			return
		}
	}
}

// compareAll: after every operation, both objects equal their models in
// length, membership, lookup and in the order produced by every iteration
// route; structural invariants hold.
func (x *c12run) compareAll(op Op) {
	for o := 0; o < 2; o++ {
		obj, m := x.objs[o], x.model[o]
		got := x.snapshot(obj)
		if !x.sameAsModel(got, m) {
			var w []kv
			for _, e := range m.ents {
				v := e.v
				if x.isSet {
					v = 0
				}
				w = append(w, kv{x.key(e.k).class, v})
			}
			x.fail("state-differs", "object %d is %v, the ordered association list is %v", o, got, w)
			return
		}
		if n := starlark.Len(obj); n != len(m.ents) {
			x.fail("wrong-length", "object %d: Len()=%d, model %d", o, n, len(m.ents))
			return
		}
		// order through every route
		if d, ok := obj.(*starlark.Dict); ok {
			x.checkOrder("Keys()", d.Keys(), m, nil)
			var ks []starlark.Value
			it := d.Iterate()
			var kk starlark.Value
			for it.Next(&kk) {
				ks = append(ks, kk)
			}
			it.Done()
			x.checkOrder("Iterate()", ks, m, nil)
			ks = nil
			for a := range d.Entries() {
				ks = append(ks, a)
			}
			x.checkOrder("Entries()", ks, m, nil)
		} else if s, ok := obj.(*starlark.Set); ok {
			var ks []starlark.Value
			it := s.Iterate()
			var kk starlark.Value
			for it.Next(&kk) {
				ks = append(ks, kk)
			}
			it.Done()
			x.checkOrder("Iterate()", ks, m, nil)
		}
		// two iterators over the same object advanced alternately (what nested
		// loops and zip(d, d) do): each must see the whole sequence
		if it1, ok := obj.(starlark.Iterable); ok && (!x.long || x.opIdx%971 == 0) {
			a, b := it1.Iterate(), it1.Iterate()
			var ka, kb []starlark.Value
			var va, vb starlark.Value
			for {
				oka := a.Next(&va)
				if oka {
					ka = append(ka, va)
				}
				okb := b.Next(&vb)
				if okb {
					kb = append(kb, vb)
				}
				if !oka && !okb {
					break
				}
			}
			a.Done()
			b.Done()
			x.checkOrder("first of two interleaved iterators", ka, m, nil)
			x.checkOrder("second of two interleaved iterators", kb, m, nil)
		}
		if !x.long || x.opIdx%971 == 0 {
			tmpl := "st:order"
			if x.isSet {
				tmpl = "st:sorder"
			}
			if r, err := x.star(tmpl, starlark.StringDict{"D": obj}); err == nil {
				if t, ok := r.(starlark.Tuple); ok {
					for ri, part := range t {
						l, ok := part.(*starlark.List)
						if !ok {
							continue
						}
						var ks []starlark.Value
						for i := 0; i < l.Len(); i++ {
							e := l.Index(i)
							if ri == 2 && !x.isSet { // values()
								continue
							}
							if tt, ok := e.(starlark.Tuple); ok && ri == 3 && len(tt) == 2 {
								e = tt[0]
							}
							ks = append(ks, e)
						}
						if ri == 2 && !x.isSet {
							continue
						}
						x.checkOrder(fmt.Sprintf("Starlark route %d", ri), ks, m, nil)
					}
				}
			} else {
				x.fail("unexpected-error", "reading the collection from Starlark: %v", err)
			}
		}
		// membership and lookup of every universe key (short histories)
		if !x.long {
			for i := range x.sc.Keys {
				k := x.key(i)
				f := ""
				if x.faulty {
					f = x.callbackFault(m, k)
				}
				var found bool
				var val starlark.Value
				var err error
				if d, ok := obj.(*starlark.Dict); ok {
					val, found, err = d.Get(k.v)
				} else {
					found, err = obj.(*starlark.Set).Has(k.v)
				}
				if f != "" && (err != nil || k.selfInc) {
					continue
				}
				j := m.find(x, k)
				if err != nil || found != (j >= 0) {
					x.fail("wrong-membership", "object %d: lookup of %s: found=%v err=%v, model has %v", o, x.describeKey(i), found, err, j >= 0)
					return
				}
				if found && !x.isSet {
					if valOf(val) != m.ents[j].v {
						x.fail("wrong-value", "object %d: lookup of %s returned %v, model has %d", o, k.class, val, m.ents[j].v)
						return
					}
				}
			}
		}
		// probes: two live keys in one chain
		seen := map[uint32]int{}
		for _, e := range m.ents {
			if h, ok := x.key(e.k).tableHash(); ok {
				seen[h&7]++
				if seen[h&7] >= 2 {
					x.chainShared = true
				}
			}
		}
		if msg := structuralInvariants(obj, len(m.ents)); msg != "" {
			x.fail("structure-corrupt", "object %d: %s", o, msg)
			return
		}
	}
}

// structuralInvariants checks the hashtable's internal consistency through
// reflect (read-only). "" = fine or unavailable.
func structuralInvariants(obj starlark.Value, wantLen int) (msg string) {
	defer func() {
		if r := recover(); r != nil {
			whiteboxOK = false
			msg = ""
		}
	}()
	ht, ok := reflField(obj, "ht")
	if !ok {
		return ""
	}
	n := int(ht.FieldByName("len").Uint())
	if n != wantLen {
		return fmt.Sprintf("ht.len=%d, expected %d", n, wantLen)
	}
	// walk the insertion-order list
	head := ht.FieldByName("head")
	prevLinkWant := head.Addr().Pointer() // &ht.head
	count := 0
	cur := head
	var lastNextAddr uintptr = prevLinkWant
	for !cur.IsNil() {
		e := cur.Elem()
		count++
		if count > n+1 {
			return "insertion list longer than len (cycle?)"
		}
		if pl := e.FieldByName("prevLink").Pointer(); pl != prevLinkWant {
			return fmt.Sprintf("entry %d: prevLink does not point at the link that points to it", count)
		}
		if e.FieldByName("hash").Uint() == 0 {
			return fmt.Sprintf("entry %d in the list has hash 0 (free slot)", count)
		}
		nx := e.FieldByName("next")
		prevLinkWant = nx.Addr().Pointer()
		lastNextAddr = prevLinkWant
		cur = nx
	}
	if count != n {
		return fmt.Sprintf("insertion list has %d entries, len=%d", count, n)
	}
	if tl := ht.FieldByName("tailLink"); !tl.IsNil() && tl.Pointer() != lastNextAddr {
		return "tailLink is not the address of the last next link"
	} else if tl.IsNil() && n > 0 {
		return "tailLink is nil on a non-empty table"
	}
	// every live slot sits in the chain its hash selects
	table := ht.FieldByName("table")
	live := 0
	nb := table.Len()
	for bi := 0; bi < nb; bi++ {
		b := table.Index(bi)
		for {
			ents := b.FieldByName("entries")
			for j := 0; j < ents.Len(); j++ {
				h := ents.Index(j).FieldByName("hash").Uint()
				if h != 0 {
					live++
					if int(h)&(nb-1) != bi {
						return fmt.Sprintf("slot with hash %#x sits in chain %d of %d", h, bi, nb)
					}
				}
			}
			nx := b.FieldByName("next")
			if nx.IsNil() {
				break
			}
			b = nx.Elem()
		}
	}
	if live != n {
		return fmt.Sprintf("%d live slots in the table, len=%d", live, n)
	}
	return ""
}

var _ = reflect.TypeOf

func (c12) Shrink(sc *Scenario) []*Scenario {
	var out []*Scenario
	// drop chunks of ops (halves, quarters, … single ops; later chunks first): a
	// ddmin-style schedule that stays cheap for histories of 10^4 operations
	n := len(sc.Ops)
	for size := n / 2; size >= 1 && len(out) < 90; size /= 2 {
		for end := n; end-size >= 0 && len(out) < 90; end -= size {
			c := sc.Clone()
			c.Ops = append(c.Ops[:end-size:end-size], sc.Ops[end:]...)
			out = append(out, c)
			if size == 1 && n-end >= 40 {
				break
			}
		}
	}
	if sc.HashFn != 0 {
		c := sc.Clone()
		c.HashFn = 0
		out = append(out, c)
	}
	// drop universe keys that no op refers to (indices above are shifted down)
	used := map[int64]bool{}
	for _, o := range sc.Ops {
		used[o.A] = true
		for _, a := range o.Args {
			used[a] = true
		}
	}
	keyCands := 0
	for j := len(sc.Keys) - 1; j >= 0 && keyCands < 40 && len(sc.Ops) <= 400; j-- {
		if used[int64(j)] || len(sc.Keys) <= 1 {
			continue
		}
		keyCands++
		c := sc.Clone()
		c.Keys = append(c.Keys[:j], c.Keys[j+1:]...)
		for i := range c.Ops {
			if c.Ops[i].A > int64(j) && c.Ops[i].A < 1000 {
				c.Ops[i].A--
			}
			for a := range c.Ops[i].Args {
				if c.Ops[i].Args[a] > int64(j) && c.Ops[i].Args[a] < 1000 {
					c.Ops[i].Args[a]--
				}
			}
		}
		out = append(out, c)
	}
	for i := range sc.Ops {
		if len(sc.Ops) > 200 {
			break // only worth trying once the history is short
		}
		if len(sc.Ops[i].Args) > 0 {
			c := sc.Clone()
			c.Ops[i].Args = c.Ops[i].Args[:len(c.Ops[i].Args)-1]
			out = append(out, c)
		}
		if sc.Ops[i].Obj == 1 {
			c := sc.Clone()
			c.Ops[i].Obj = 0
			out = append(out, c)
		}
	}
	return out
}

func (c12) Shape(sc *Scenario, class string) string {
	var ops []string
	for _, o := range sc.Ops {
		ops = append(ops, o.Op)
	}
	if len(ops) > 6 {
		ops = ops[len(ops)-6:]
	}
	return class + "/" + sc.Family + "/" + strings.Join(ops, ",")
}
