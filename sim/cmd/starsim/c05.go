package main

import (
	"bytes"
	"fmt"
	"os"
	"strings"
	"sync"

	"go.starlark.net/starlark"

	"verifsim/sched"
)

// C05 — frozen values and compiled programs are safe to share between threads.
//
// Family "readers": a module M is executed and frozen by the main task; K
// reader tasks (real goroutines under the HB-free scheduler) then read,
// iterate, compare, hash, print, encode, call, store (re-freeze) and attempt
// to mutate M's values, interleaved at every VM step.
// Family "program": K tasks Init one shared compiled *Program, some failing.
//
// Oracles: (1) the Go race detector stays silent (race build); (2) every
// task's transcript equals that of the same task run alone against an
// independently built instance; (3) a word-level snapshot of every frozen
// object's header never changes (non-race build).

type c05 struct{}

func init() { register(c05{}) }

func (c05) ID() string    { return "C05" }
func (c05) Level() string { return "exploration" }
func (c05) Rule() string {
	return "generated frozen object-graph modules x 2-4 generated reader programs (or 2-4 Inits of one shared compiled program, some failing) x seeded schedules with a scheduling point before every VM instruction and inside host built-ins. A case is one scheduled execution; distinct = distinct (sources hash, context-switch signature); non-trivial = at least two tasks interleaved (>=2 context switches) while touching the shared graph/program"
}
func (c05) Components() map[string]string {
	return map[string]string{
		"syntax/resolve/compile/VM/library/Freeze/iterators/Funcode.Position": "real",
		"threads":                    "real goroutines; the turn is passed by raw assembly in norace code, so the race detector sees no synchronisation between tasks",
		"race oracle":                "Go race detector (-race build), runtime.RaceErrors() sampled around every scenario with duplicate suppression off",
		"module cache / publication": "goroutine creation by the task that froze the module (the happens-before edge an embedder's cache provides)",
		"host built-ins":             "stub (simulator)",
	}
}
func (c05) Budget(tier string) int {
	if tier == "thorough" {
		return 100000
	}
	return 2400
}

func (c05) Generate(seed uint64, i int, tier string) *Scenario {
	catalogues()
	r := NewRng(mix64(seed, uint64(i)) ^ 0xc05)
	sc := &Scenario{Prop: "C05", Seed: seed, Index: i, D: RandomDialect(r), N: map[string]int64{}}
	k := r.Range(2, 4)
	if r.Chance(3, 4) {
		sc.Family = "readers"
		units, meta := GraphModuleMeta(r.Fork(), GraphOpts{D: sc.D, Blocks: r.Range(4, 12), ErrorAt: -1, FailFuncs: true, SelfRef: r.Chance(1, 5)})
		sc.Prog = units
		for j := 0; j < k; j++ {
			sc.Readers = append(sc.Readers, readerProgram(r.Fork(), meta, sc.D, r.Range(6, 24)))
		}
		if r.Chance(1, 3) {
			// the module is executed by whichever reader asks the cache first;
			// the others block and receive the frozen globals through the cache
			sc.N["viaLoader"] = 1
		}
	} else {
		sc.Family = "program"
		g := NewGen(r.Fork(), GenOpts{D: sc.D, Units: r.Range(6, 14), ErrPermille: r.Pick3(0, 15, 40), Probes: true, Host: true, JSON: true, MutGlobals: true})
		sc.Prog = g.Program()
		sc.N["tasks"] = int64(k)
		for j := 0; j < k; j++ {
			if r.Chance(1, 2) {
				sc.Faults = append(sc.Faults, Fault{Kind: "error", Task: j + 1, Trigger: r.Pick([]string{"fault", "call"}), K: uint64(r.Range(1, 8)), Payload: "c05"})
			}
		}
	}
	sc.Sched = randomSched(r, k)
	return sc
}

// readerProgram generates a reader over the frozen dict M of a module's globals.
func readerProgram(r *Rng, meta GraphMeta, d Dialect, n int) []string {
	var units []string
	defs := map[string]bool{}
	nid := 0
	fresh := func(p string) string { nid++; return fmt.Sprintf("%s%d", p, nid) }
	add := func(format string, args ...any) { units = append(units, fmt.Sprintf(format, args...)) }
	pick := func(xs []string) string {
		if len(xs) == 0 || r.Chance(1, 5) {
			if len(meta.Any) == 0 {
				return "nothing"
			}
			return meta.Any[r.Intn(len(meta.Any))]
		}
		return xs[r.Intn(len(xs))]
	}
	add("own = {}\n")
	for i := 0; i < n; i++ {
		x := fresh("x")
		var from []string
		switch r.Intn(6) {
		case 5:
			from = meta.Hashables
		case 0:
			from = meta.Lists
		case 1:
			from = meta.Dicts
		case 2:
			from = meta.Sets
		case 3:
			from = meta.Funcs
		}
		add("%s = M.get(%q)\n", x, pick(from))
		switch r.Intn(39) {
		case 37, 38:
			// subset / superset / equality queries with the shared set on either side
			add("attempt(lambda: probe(%s <= %s, %s < %s, %s.issubset(list(%s)), %s.issuperset(list(%s)), %s == %s, %s.isdisjoint([])))\n", x, x, x, x, x, x, x, x, x, x, x)
			add("attempt(lambda: probe(sorted(%s), sorted(%s, reverse=True), %s.union(%s), %s & %s))\n", x, x, x, x, x, x)
		case 35, 36:
			// call a shared function and KEEP what it returns (a closure minted by a
			// frozen closure shares that closure's cells): frozen at this module's end
			k := fresh("kp")
			add("def %s(f):\n    r = f()\n    own[%q] = r\n    own[%q] = r() if type(r) == \"function\" else None\n", k, k, k+"_2")
			add("attempt(%s, %s)\n", k, x)
		case 32, 33, 34:
			// look every key of the shared table up again (by index, get, in)
			add("attempt(lambda: probe([%s[k] for k in %s][:4], [%s.get(k) for k in list(%s)][-3:], [k in %s for k in list(%s)][:6]))\n", x, x, x, x, x, x)
			add("attempt(lambda: probe([k in %s for k in list(%s)], %s == %s))\n", x, x, x, x)
		case 25, 26:
			// Go push iterators driven by the host over the shared value: full
			// traversal, early exit, failing call-back
			add("attempt(each, %s, lambda e: probe(type(e)), %d)\n", x, r.Pick3(0, 1, 2))
			add("attempt(each, %s, lambda e: 0)\n", x)
			add("attempt(eachkv, %s, lambda k, v: probe(type(k)))\n", x)
			add("attempt(each, %s, lambda e: [1][5])\n", x)
		case 27, 28:
			// new values built from the shared one (sums, slices, copies, unions),
			// kept, mutated and read back: nothing another thread does may show
			y, z := fresh("y"), fresh("z")
			add("def %s(x):\n    a = x + struct(zz_%s=%d)\n    b = x + struct(zz_%s_2=%d, zzz=[])\n    probe(a, b)\n    return [a, b]\n", y, y, i, y, i+1)
			add("%s = attempt(%s, %s)\n", z, y, x)
			add("probe(%s)\n", z)
		case 29, 30, 31:
			typ := r.Pick([]string{"list", "dict", "tuple", "list"})
			if d.Set && r.Chance(1, 4) {
				typ = "set"
			}
			exprs := c04derive[typ]
			e := strings.ReplaceAll(exprs[r.Intn(len(exprs))], "x", "q")
			if !d.Set && strings.Contains(e, "set(") {
				e = "list(q)"
			}
			y := fresh("dv")
			add("def %s(q):\n    d = %s\n    m = getattr(d, \"append\", None) or getattr(d, \"add\", None)\n    if m:\n        m(%d)\n    elif type(d) == \"dict\":\n        d[\"mine-%d\"] = %d\n    probe(d)\n    return d\n", y, e, 1000+i, i, i)
			add("attempt(%s, %s)\nprobe(%s)\n", y, x, x)
		case 22, 23:
			// hashing: the value as a dict key, a set element, an `in` operand
			add("attempt(lambda: own.update({%s: len(own), (%s, 1): 2}))\n", x, x)
			add("attempt(lambda: probe(%s in own, (%s, 1) in own, {%s: 1}.get(%s), len(own)))\n", x, x, x, x)
		case 24:
			if d.Set {
				add("attempt(lambda: probe(len(set([%s, %s])), %s in set([%s])))\n", x, x, x, x)
			} else {
				add("attempt(lambda: probe({%s: 1} == {%s: 1}))\n", x, x)
			}
		case 0:
			add("probe(%s)\n", x)
		case 1:
			add("print(str(%s), repr(%s))\n", x, x)
		case 2:
			add("attempt(lambda: probe(json.encode(%s)))\n", x)
		case 3:
			add("attempt(lambda: probe(sorted(%s), len(%s)))\n", x, x)
		case 4:
			f := fresh("rd")
			add("def %s(x):\n    n = 0\n    for e in x:\n        n += 1\n        probe(type(e))\n    return [e for e in x] + [n]\n", f)
			add("attempt(%s, %s)\n", f, x)
		case 5:
			add("attempt(lambda: probe(%s == %s, %s != %s, %s in [%s]))\n", x, x, x, x, x, x)
		case 6:
			add("attempt(lambda: probe(hash((1, \"k\")), hash(%s)))\n", x)
		case 7:
			add("attempt(lambda: own.update({(1, %s): len(own)}))\n", x)
			add("attempt(lambda: probe(own))\n")
		case 8:
			add("attempt(lambda: probe(%s[0], %s[-1], %s[0:2]))\n", x, x, x)
		case 9:
			add("attempt(lambda: probe(%s.keys(), %s.values(), %s.items(), %s.get(\"k1\")))\n", x, x, x, x)
		case 10:
			add("attempt(lambda: probe(list(%s), tuple(%s), bool(%s), dir(%s)))\n", x, x, x, x)
		case 11:
			add("attempt(%s)\n", x)
			add("attempt(%s, 1)\n", x)
		case 12:
			add("attempt(lambda: %s.append(1))\n", x)
			add("attempt(lambda: %s.update({\"q\": 1}))\n", x)
			add("attempt(lambda: %s.add(1))\n", x)
		case 13:
			m := pickMutator(r, r.Pick([]string{"list", "dict", "set"}))
			if !defs[m.Name] {
				defs[m.Name] = true
				add("%s", m.Def)
			}
			add("attempt(%s, %s)\n", m.Name, x)
		case 14:
			add("%s = [%s, (%s,), {\"k\": %s}]\n", fresh("mine"), x, x, x)
		case 15:
			add("freeze(%s)\n", x)
		case 16:
			add("attempt(lambda: probe(%s.f, %s.x, %s.y))\n", x, x, x)
		case 17:
			add("apply(lambda: probe(len(str(%s))))\n", x)
		case 18:
			if d.Set {
				add("attempt(lambda: probe(set(%s) | set([1]), set([2]) & set(%s)))\n", x, x)
			} else {
				add("attempt(lambda: probe(dict(%s)))\n", x)
			}
		case 19:
			add("attempt(lambda: probe([a for a in %s for b in %s]))\n", x, x)
		case 20:
			add("attempt(lambda: probe(max(%s), min(%s), any(%s), all(%s), list(enumerate(%s)), list(zip(%s, %s))))\n", x, x, x, x, x, x, x)
		default:
			add("attempt(lambda: probe(\"%%s|%%r\" %% (%s, %s), \"{}\".format(%s)))\n", x, x, x)
		}
	}
	switch r.Intn(4) {
	case 0:
		add("M[\"no-such-name\"]\n")
	case 1:
		if len(meta.Funcs) > 0 {
			add("M[%q]()\n", meta.Funcs[r.Intn(len(meta.Funcs))])
		}
	}
	return units
}

// ---------------------------------------------------------------------------

type c05task struct {
	ctx   *TaskCtx
	err   error
	panic any
	steps uint64
}

func (t *c05task) summary() []string {
	out := append([]string{}, t.ctx.Transcript()...)
	out = append(out, "outcome:"+outcome(t.err), fmt.Sprintf("steps:%d", t.steps))
	if t.panic != nil {
		out = append(out, fmt.Sprintf("panic:%v", t.panic))
	}
	return out
}

func freezeDict(g starlark.StringDict) *starlark.Dict {
	d := starlark.NewDict(len(g))
	for _, k := range g.Keys() {
		d.SetKey(starlark.String(k), g[k])
	}
	d.Freeze()
	return d
}

const c05StepCap = 4000

func (p c05) Run(sc *Scenario) *Result {
	catalogues()
	res := NewResult()
	// static validity
	w0 := NewWorld(nil, nil)
	pre0 := w0.Predeclared()
	if _, err := Compile(sc.D, "m.star", sc.Source(), pre0); err != nil {
		res.Invalid = true
		return res
	}
	pre0["M"] = starlark.None
	for _, rd := range sc.Readers {
		if _, err := Compile(sc.D, "reader.star", strings.Join(rd, ""), pre0); err != nil {
			res.Invalid = true
			return res
		}
	}
	res.Sig = hashStr(sc.Source() + fmt.Sprint(sc.Readers))
	var conc []*c05task
	var s *sched.Sched
	var snapViol string
	if sc.Family == "readers" {
		conc, s, snapViol = p.runReaders(sc, true, res)
	} else {
		conc, s, snapViol = p.runProgram(sc, true, res)
	}
	if conc == nil {
		return res
	}
	res.Evals++
	res.addSched(s)
	res.Sig = mix64(res.Sig, s.SwitchSig())
	if s.Switches() >= 2 {
		res.Nontrivial = true
	}
	if s.Overrun() || s.Deadlocked() {
		res.Violate("no-progress", "overrun=%v deadlock=%v", s.Overrun(), s.Deadlocked())
	}
	if snapViol != "" {
		res.Violate("frozen-heap-changed", "%s", snapViol)
	}
	// (2) same results as alone, against an independently built instance
	var solo []*c05task
	if sc.Family == "readers" {
		solo, _, _ = p.runReaders(sc, false, res)
	} else {
		solo, _, _ = p.runProgram(sc, false, res)
	}
	res.Evals += int64(len(solo))
	for i := range conc {
		if i >= len(solo) {
			break
		}
		a, b := conc[i].summary(), solo[i].summary()
		res.Mix(a...)
		if !sameStrings(a, b) {
			res.Violate("differs-from-solo", "task %d: %s", i, diffStrings(a, b))
		}
		for k, v := range conc[i].ctx.Fired {
			res.Count("fault_"+k, int64(v))
		}
		if conc[i].err != nil {
			res.Count("probe_task_failed_with_backtrace", 1)
		}
	}
	return res
}

// runReaders executes family "readers": concurrently (scheduled) or solo.
func (p c05) runReaders(sc *Scenario, concurrent bool, res *Result) ([]*c05task, *sched.Sched, string) {
	K := len(sc.Readers)
	cfg := sc.Sched
	if !concurrent {
		cfg = sched.Config{Strategy: "seq"}
	}
	s := sched.New(cfg)
	w := NewWorld(s, sc.Faults)
	main := w.NewCtx("module")
	mainPre := w.Predeclared()
	tasks := make([]*c05task, K)
	pres := make([]starlark.StringDict, K)
	progs := make([]*starlark.Program, K)
	for i := 0; i < K; i++ {
		c := w.NewCtx(fmt.Sprintf("reader%d", i))
		c.YieldInVM = concurrent
		c.TickPerExec = 1
		c.Th.SetMaxExecutionSteps(c05StepCap)
		tasks[i] = &c05task{ctx: c}
		pres[i] = w.Predeclared()
		pres[i]["M"] = starlark.None
		// each reader compiles its own program (programs are per-thread here;
		// the shared compiled code is M's)
		pg, err := Compile(sc.D, fmt.Sprintf("reader%d.star", i), strings.Join(sc.Readers[i], ""), pres[i])
		if err != nil {
			res.Invalid = true
			return nil, nil, ""
		}
		progs[i] = pg
	}
	var snapViol string
	var modErr error
	var modPanic any
	if sc.Knob("viaLoader", 0) == 1 {
		// Publication through a module cache, as in example_test.go: the
		// first reader to ask executes the module; the others wait; the
		// cache's own synchronisation (a real channel close/receive — it
		// never blocks, the scheduler has already ordered the tasks) is the
		// only happens-before edge between the freezer and the readers.
		var mu sync.Mutex
		started := false
		ready := make(chan struct{})
		var wait sched.Waitable
		var M *starlark.Dict
		get := func(c *TaskCtx) *starlark.Dict {
			mu.Lock()
			if !started {
				started = true
				mu.Unlock()
				lc := w.NewCtxLocked("module", &mu)
				lc.T = c.T
				lc.YieldInVM = c.YieldInVM
				lc.Th.SetMaxExecutionSteps(200000)
				var g starlark.StringDict
				modPanic = safeRun(func() {
					g, modErr = starlark.ExecFileOptions(sc.D.FileOptions(), lc.Th, "m.star", sc.Source(), mainPre)
				})
				if g == nil {
					g = starlark.StringDict{}
				}
				M = freezeDict(g)
				close(ready)
				s.Signal(&wait)
				return M
			}
			mu.Unlock()
			if c.T != nil {
				c.T.Block(&wait)
			}
			<-ready
			return M
		}
		for i := 0; i < K; i++ {
			i := i
			tk := tasks[i]
			s.Spawn(fmt.Sprintf("reader%d", i), func(t *sched.Task) {
				c := tk.ctx
				c.T = t
				pres[i]["M"] = get(c)
				tk.panic = safeRun(func() {
					var rg starlark.StringDict
					rg, tk.err = progs[i].Init(c.Th, pres[i])
					rg.Freeze()
				})
				tk.steps = c.Th.ExecutionSteps()
			})
		}
		s.Run()
		res.Count("probe_published_through_module_cache", 1)
		if modPanic != nil {
			res.Count("module_panicked", 1)
			return nil, nil, ""
		}
		return tasks, s, ""
	}
	s.Spawn("module", func(t *sched.Task) {
		main.T = t
		main.Th.SetMaxExecutionSteps(200000)
		var g starlark.StringDict
		modPanic = safeRun(func() {
			g, modErr = starlark.ExecFileOptions(sc.D.FileOptions(), main.Th, "m.star", sc.Source(), mainPre)
		})
		if modPanic != nil || g == nil {
			return
		}
		M := freezeDict(g)
		// white-box snapshot of every frozen header (non-race build only)
		var nodes []Node
		var snaps []string
		if !raceEnabled && concurrent {
			nodes = Walk(g)
			for _, n := range nodes {
				h, _ := headerSnapshot(n.V)
				snaps = append(snaps, h)
			}
		}
		checkSnap := func(when string) {
			for i, n := range nodes {
				if h, ok := headerSnapshot(n.V); ok && h != snaps[i] && snapViol == "" {
					snapViol = fmt.Sprintf("%s: header of frozen %s at %s changed: %s -> %s", when, n.V.Type(), n.Path, snaps[i], h)
				}
			}
		}
		// start the readers: goroutine creation publishes the frozen graph
		for i := 0; i < K; i++ {
			i := i
			tk := tasks[i]
			pres[i]["M"] = M
			s.Spawn(fmt.Sprintf("reader%d", i), func(t *sched.Task) {
				c := tk.ctx
				c.T = t
				if len(nodes) > 0 {
					c.OnStep = func() {
						if c.Exec%41 == 0 {
							checkSnap(fmt.Sprintf("reader %d at instruction %d", i, c.Exec))
						}
					}
				}
				tk.panic = safeRun(func() {
					goAPIReads(c, g, i)
					var rg starlark.StringDict
					rg, tk.err = progs[i].Init(c.Th, pres[i])
					rg.Freeze() // module end: re-freezes whatever it stored
					goAPIReads(c, g, i+1)
				})
				tk.steps = c.Th.ExecutionSteps()
				if len(nodes) > 0 {
					checkSnap(fmt.Sprintf("reader %d finished", i))
				}
			})
		}
	})
	s.Run()
	if modPanic != nil {
		res.Count("module_panicked", 1)
		return nil, nil, ""
	}
	if modErr != nil {
		res.Count("modules_failing_by_themselves", 1)
	}
	return tasks, s, snapViol
}

// goAPIReads uses the read-only Go API of every function and collection
// reachable from g (what an embedder does with a shared module: metadata of
// functions, Keys/Items/Len/Index/Has of collections) and records the results in
// the task's transcript.
func goAPIReads(c *TaskCtx, g starlark.StringDict, salt int) {
	for k, n := range Walk(g) {
		if (k+salt)%2 == 1 {
			continue // different tasks touch different (overlapping) subsets
		}
		switch v := n.V.(type) {
		case *starlark.Function:
			d := fmt.Sprintf("fn %s@%s doc=%q np=%d kw=%d va=%v kwa=%v", v.Name(), v.Position(), v.Doc(), v.NumParams(), v.NumKwonlyParams(), v.HasVarargs(), v.HasKwargs())
			for i := 0; i < v.NumParams(); i++ {
				pn, pp := v.Param(i)
				d += fmt.Sprintf(" %s@%s", pn, pp)
				if dv := v.ParamDefault(i); dv != nil {
					d += "=" + dv.Type()
				}
			}
			for i := 0; i < v.NumFreeVars(); i++ {
				b, fv := v.FreeVar(i)
				d += fmt.Sprintf(" free:%s:%s", b.Name, fv.Type())
			}
			c.record("goapi:" + d)
		case *starlark.List:
			d := fmt.Sprintf("list len=%d", v.Len())
			if v.Len() > 0 {
				d += " first=" + v.Index(0).Type() + " slice=" + fmt.Sprint(v.Slice(0, v.Len(), 2).(*starlark.List).Len())
			}
			c.record("goapi:" + d)
		case *starlark.Dict:
			d := fmt.Sprintf("dict len=%d keys=%d items=%d", v.Len(), len(v.Keys()), len(v.Items()))
			for _, k := range v.Keys() {
				if _, found, err := v.Get(k); err != nil || !found {
					d += " LOST-KEY"
				}
			}
			c.record("goapi:" + d)
		case *starlark.Set:
			d := fmt.Sprintf("set len=%d", v.Len())
			it := v.Iterate()
			var e starlark.Value
			for it.Next(&e) {
				if ok, err := v.Has(e); err != nil || !ok {
					d += " LOST-ELEM"
				}
			}
			it.Done()
			if u, err := v.Union(v.Iterate()); err == nil {
				d += fmt.Sprintf(" union=%d", u.(*starlark.Set).Len())
			}
			c.record("goapi:" + d)
		}
	}
}

// runProgram executes family "program": K Inits of one compiled program.
func (p c05) runProgram(sc *Scenario, concurrent bool, res *Result) ([]*c05task, *sched.Sched, string) {
	K := int(sc.Knob("tasks", 2))
	cfg := sc.Sched
	if !concurrent {
		cfg = sched.Config{Strategy: "seq"}
	}
	s := sched.New(cfg)
	w := NewWorld(s, sc.Faults)
	main := w.NewCtx("compiler")
	_ = main
	tasks := make([]*c05task, K)
	pres := make([]starlark.StringDict, K)
	for i := 0; i < K; i++ {
		c := w.NewCtx(fmt.Sprintf("init%d", i)) // ctx index i+1: matches Fault.Task
		c.YieldInVM = concurrent
		c.TickPerExec = 1
		c.Th.SetMaxExecutionSteps(c05StepCap)
		tasks[i] = &c05task{ctx: c}
		pres[i] = w.Predeclared()
	}
	var bad bool
	s.Spawn("compiler", func(t *sched.Task) {
		// compiled once, by the main task; shared by all
		prog, err := Compile(sc.D, "shared.star", sc.Source(), pres[0])
		if err != nil {
			bad = true
			return
		}
		for i := 0; i < K; i++ {
			i := i
			tk := tasks[i]
			s.Spawn(fmt.Sprintf("init%d", i), func(t *sched.Task) {
				c := tk.ctx
				c.T = t
				tk.panic = safeRun(func() {
					if i%2 == 0 {
						// serialise the shared program while others run it
						var buf bytes.Buffer
						werr := prog.Write(&buf)
						c.record(fmt.Sprintf("goapi:write %d bytes %016x err=%v file=%s loads=%d", buf.Len(), hashStr(buf.String()), werr, prog.Filename(), prog.NumLoads()))
					}
					var g starlark.StringDict
					g, tk.err = prog.Init(c.Th, pres[i])
					g.Freeze()
					goAPIReads(c, g, i)
				})
				tk.steps = c.Th.ExecutionSteps()
			})
		}
	})
	s.Run()
	if bad {
		res.Invalid = true
		return nil, nil, ""
	}
	return tasks, s, ""
}

// ---------------------------------------------------------------------------
// race report plumbing

func raceLogPath() string {
	p := os.Getenv("STARSIM_RACE_LOG")
	if p == "" {
		return ""
	}
	return fmt.Sprintf("%s.%d", p, os.Getpid())
}

func raceLogSize() int64 {
	if p := raceLogPath(); p != "" {
		if st, err := os.Stat(p); err == nil {
			return st.Size()
		}
	}
	return 0
}

func raceLogSince(off int64) string {
	p := raceLogPath()
	if p == "" {
		return ""
	}
	b, err := os.ReadFile(p)
	if err != nil || int64(len(b)) <= off {
		return ""
	}
	return string(b[off:])
}

// firstReport trims a race log to the first report's top frames.
func firstReport(rep string) string {
	if rep == "" {
		return "(report text is on stderr)"
	}
	lines := strings.Split(rep, "\n")
	var out []string
	for _, l := range lines {
		if strings.HasPrefix(l, "Goroutine ") {
			break
		}
		if strings.Contains(l, "()") || strings.HasPrefix(l, "Write") || strings.HasPrefix(l, "Read") || strings.HasPrefix(l, "Previous") || strings.Contains(l, ".go:") {
			out = append(out, strings.TrimRight(l, " "))
		}
		if len(out) > 28 {
			break
		}
	}
	return strings.Join(out, "\n")
}

func (c05) Shrink(sc *Scenario) []*Scenario {
	var out []*Scenario
	for i := range sc.Readers {
		if len(sc.Readers) > 2 {
			c := sc.Clone()
			c.Readers = append(c.Readers[:i], c.Readers[i+1:]...)
			out = append(out, c)
		}
	}
	if k := sc.Knob("tasks", 0); k > 2 {
		c := sc.Clone()
		c.N["tasks"] = k - 1
		out = append(out, c)
	}
	for i := range sc.Faults {
		c := sc.Clone()
		c.Faults = append(c.Faults[:i], c.Faults[i+1:]...)
		out = append(out, c)
	}
	if sc.Sched.Strategy != "rr" || sc.Sched.Quantum != 1 {
		c := sc.Clone()
		c.Sched = sched.Config{Strategy: "rr", Quantum: 1, Seed: 1}
		out = append(out, c)
	}
	return out
}

func (c05) Shape(sc *Scenario, class string) string {
	return class + "/" + sc.Family
}
