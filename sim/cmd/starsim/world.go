package main

import (
	"errors"
	"fmt"
	"reflect"
	"sort"
	"runtime/metrics"
	"strings"
	"sync"
	"sync/atomic"
	"time"

	"go.starlark.net/lib/json"
	"go.starlark.net/lib/math"
	startime "go.starlark.net/lib/time"
	"go.starlark.net/starlark"
	"go.starlark.net/starlarkstruct"
	"go.starlark.net/syntax"

	"verifsim/sched"
)

// Event kinds (>= 16; lower numbers belong to the scheduler).
const (
	EvExec uint8 = 16 + iota
	EvBuiltinEnter
	EvBuiltinExit
	EvPrint
	EvProbe
	EvFault
	EvCancel
	EvUncancel
	EvLoadBegin
	EvLoadEnd
	EvFreeze
	EvReturn
	EvAttempt
	EvStart
	EvOpBase = 64 // EvOpBase+opclass: executed instruction classes
)

// Dialect options of a scenario.
type Dialect struct {
	Set             bool `json:"set,omitempty"`
	While           bool `json:"while,omitempty"`
	TopLevelControl bool `json:"toplevel,omitempty"`
	GlobalReassign  bool `json:"reassign,omitempty"`
	Recursion       bool `json:"recursion,omitempty"`
}

func (d Dialect) FileOptions() *syntax.FileOptions {
	return &syntax.FileOptions{
		Set:             d.Set,
		While:           d.While,
		TopLevelControl: d.TopLevelControl,
		GlobalReassign:  d.GlobalReassign,
		Recursion:       d.Recursion,
	}
}

func (d Dialect) String() string {
	b := func(x bool) byte {
		if x {
			return '1'
		}
		return '0'
	}
	return string([]byte{b(d.Set), b(d.While), b(d.TopLevelControl), b(d.GlobalReassign), b(d.Recursion)})
}

// A Fault is one entry of a scenario's fault plan.
type Fault struct {
	Kind    string `json:"kind"`              // "error", "panic", "cancel", "yield", "block"
	Task    int    `json:"task"`              // index of the TaskCtx it applies to
	Trigger string `json:"trigger"`           // "call" (k-th host built-in call), "fault" (k-th fault() call), "step"
	K       uint64 `json:"k"`                 // ordinal (1-based)
	Payload string `json:"payload,omitempty"` // e.g. cancel reason
}

// TrEntry is one transcript entry, stamped with the number of instructions
// the task had executed when it was produced.
type TrEntry struct {
	At uint64
	S  string
}

// World is the simulated host for one run.
type World struct {
	S      *sched.Sched // nil in solo (unscheduled) runs
	Ctxs   []*TaskCtx
	Faults []Fault
	Fired  map[string]int // fault kinds actually fired (merged after join)
	Pre    starlark.StringDict

	// Simple non-caching module loader (C07): when Mods is set, every thread of
	// this world can load them; LoadSame executes a module on the importing
	// thread itself (its steps count against that thread's budget), otherwise on
	// a fresh thread.
	Mods     []Module
	D        Dialect
	LoadSame bool
}

func (w *World) loadModule(th *starlark.Thread, module string) (starlark.StringDict, error) {
	for _, m := range w.Mods {
		if m.Name != module {
			continue
		}
		src := strings.Join(m.Units, "")
		pre := w.Pre
		if pre == nil {
			pre = w.Predeclared()
		}
		if w.LoadSame {
			return starlark.ExecFileOptions(w.D.FileOptions(), th, module, src, pre)
		}
		lc := w.NewCtx("load:" + module)
		lc.Th.SetMaxExecutionSteps(100000)
		return starlark.ExecFileOptions(w.D.FileOptions(), lc.Th, module, src, pre)
	}
	return nil, fmt.Errorf("no such module %q", module)
}

// TaskCtx is the per-thread host state. It is touched only by the goroutine
// that runs the thread (and by the driver after the final join).
type TaskCtx struct {
	W           *World
	Idx         int
	T           *sched.Task
	Th          *starlark.Thread
	Tr          []TrEntry
	Exec        uint64 // instructions executed (hook 2) — independent of Thread.Steps
	Calls       uint64 // host built-in calls
	FaultCalls  uint64
	LastExecSeq uint64
	ExecSeqTail [8]uint64
	Kept        []starlark.Value
	KeptNames   []string
	Fired       map[string]int
	Probes      map[string]int
	OpClass     [8]uint64

	ExecLimit   uint64 // oracle: if >0, executing more than this many instructions is flagged
	LimitBroken uint64 // first Exec value that exceeded ExecLimit
	YieldInVM   bool   // scheduling point before every instruction
	TickPerExec int64

	// clock plan (C03: fixed clock, k-th call returns base + k*delta)
	ClockBase   int64
	ClockDelta  int64
	ClockCalls  int64
	UseSimClock bool
	Skew        int64

	CancelInBuiltin int // probe: cancel observed while a host built-in was in flight
	inBuiltin       int
	Panicked        any

	// cancellation oracle (C07): Model is the reference register; RegAtCheck
	// is its content at the thread's latest loop-head check.
	Model              *cancelModel
	RegAtCheck         string
	RegAtCheckSet      bool
	ExecWhileCancelled uint64
	FirstBadReason     string
	FirstBadExec       uint64
	ExecAtFault        uint64

	// violations detected by oracle built-ins while the program runs
	HostViol []Violation

	// NoFaults disables the fault plan (post-run probing of the thread).
	NoFaults bool

	// OnStep, if set, is called at every scheduling point of the VM
	// (white-box invariants that must hold throughout a run).
	OnStep func()
}

const simKey = "starsim"

func ctxOf(th *starlark.Thread) *TaskCtx {
	if c, ok := th.Local(simKey).(*TaskCtx); ok {
		return c
	}
	return nil
}

// installHooks connects the three /repo hooks to the simulator. They are
// process-global; per-thread behaviour is selected through the TaskCtx.
func installHooks() {
	starlark.VerifYield = func(th *starlark.Thread) {
		c := ctxOf(th)
		if c == nil {
			return
		}
		if c.YieldInVM && c.T != nil {
			c.T.Yield()
		}
		if c.OnStep != nil {
			c.OnStep()
		}
		if c.Model != nil {
			c.RegAtCheck, c.RegAtCheckSet = c.Model.read()
			if c.RegAtCheckSet {
				c.Model.markSeen()
			}
		}
	}
	starlark.VerifExec = func(th *starlark.Thread, op uint8) {
		if memBlown.Load() {
			th.Cancel("sim-memory-watchdog")
		}
		c := ctxOf(th)
		if c == nil {
			return
		}
		c.Exec++
		c.OpClass[opClass(op)]++
		if memBlown.Load() {
			th.Cancel("sim-memory-watchdog")
		} else if c.Exec&255 == 0 {
			memWatch(th)
		}
		if c.Model != nil && c.RegAtCheckSet {
			if c.ExecWhileCancelled == 0 {
				c.FirstBadReason, c.FirstBadExec = c.RegAtCheck, c.Exec
			}
			c.ExecWhileCancelled++
		}
		if c.ExecLimit > 0 && c.Exec > c.ExecLimit && c.LimitBroken == 0 {
			c.LimitBroken = c.Exec
		}
		// Last line of defence: a thread that runs far past the limit under test
		// (or past any budget the simulator ever grants) is stopped by the
		// simulator itself, so that a broken limit shows up as a violation and
		// not as a worker that never returns.
		if (c.ExecLimit > 0 && c.Exec > c.ExecLimit+20000) || c.Exec > 40_000_000 {
			panic(simAbort{c.Exec, c.ExecLimit})
		}
		if c.T != nil {
			s := c.T.Sched()
			if c.TickPerExec != 0 {
				s.Tick(c.TickPerExec)
			}
			seq := c.T.Emit(EvOpBase+opClass(op), uint64(op), 0, "")
			c.LastExecSeq = seq
			c.ExecSeqTail[c.Exec&7] = seq
		}
	}
}

// simAbort is the panic value with which the simulator stops a runaway thread.
type simAbort struct{ executed, limit uint64 }

func (a simAbort) String() string {
	return fmt.Sprintf("stopped by the simulator after %d instructions (limit under test: %d instructions)", a.executed, a.limit)
}

// memWatch cancels a thread whose process has grown past the memory budget
// (a generated program that doubles a list in a loop is a generator accident,
// not a finding: memory exhaustion is outside every claimed property). The
// scenario is then discarded, never reported.
var (
	memBlown   atomic.Bool
	memSample  = []metrics.Sample{{Name: "/memory/classes/heap/objects:bytes"}}
	memBudget  = uint64(256 << 20)
	memWatchMu sync.Mutex
)

func memWatch(th *starlark.Thread) {
	memWatchMu.Lock()
	metrics.Read(memSample)
	v := memSample[0].Value.Uint64()
	memWatchMu.Unlock()
	if v > memBudget {
		memBlown.Store(true)
		th.Cancel("sim-memory-watchdog")
	}
}

// startMemWatchdog samples the heap every few milliseconds of real time; its
// only effect is to discard a runaway scenario, so it cannot influence any
// execution that is kept.
func startMemWatchdog() {
	go func() {
		sample := []metrics.Sample{{Name: "/memory/classes/heap/objects:bytes"}}
		for {
			time.Sleep(4 * time.Millisecond)
			metrics.Read(sample)
			if sample[0].Value.Uint64() > memBudget {
				memBlown.Store(true)
			}
		}
	}()
}

// opClass groups opcodes into a few classes for coverage measures. It does
// not mirror the implementation's numbering beyond "same opcode, same class".
func opClass(op uint8) uint8 { return op & 7 }

// ---------------------------------------------------------------------------

func NewWorld(s *sched.Sched, faults []Fault) *World {
	return &World{S: s, Faults: faults, Fired: map[string]int{}}
}

// NewCtx creates the host state and the Starlark thread for one task.
func (w *World) NewCtx(name string) *TaskCtx {
	c := &TaskCtx{W: w, Idx: len(w.Ctxs), Fired: map[string]int{}, Probes: map[string]int{}}
	c.Th = &starlark.Thread{Name: name}
	c.Th.SetLocal(simKey, c)
	c.Th.Print = func(th *starlark.Thread, msg string) {
		c.Tr = append(c.Tr, TrEntry{c.Exec, "print:" + msg})
		if c.T != nil {
			c.T.Emit(EvPrint, hashStr(msg), 0, "")
		}
	}
	startime.SetNow(c.Th, func() (time.Time, error) {
		if c.UseSimClock && c.T != nil {
			return time.Unix(0, (c.T.Sched().Now()+c.Skew)*1000).UTC(), nil
		}
		c.ClockCalls++
		return time.Unix(0, c.ClockBase+c.ClockCalls*c.ClockDelta).UTC(), nil
	})
	if len(w.Mods) > 0 {
		c.Th.Load = w.loadModule
	}
	w.Ctxs = append(w.Ctxs, c)
	return c
}

// ResetThread gives the ctx a brand-new Starlark thread (same host state).
func (c *TaskCtx) ResetThread() {
	old := c.Th
	c.Th = &starlark.Thread{Name: old.Name, Print: old.Print, Load: old.Load}
	c.Th.SetLocal(simKey, c)
	startime.SetNow(c.Th, startime.Now(old))
}

func (c *TaskCtx) note(kind uint8, s string) {
	if c.T != nil {
		c.T.Emit(kind, hashStr(s), 0, "")
	}
}

func (c *TaskCtx) record(s string) { c.Tr = append(c.Tr, TrEntry{c.Exec, s}) }

// Transcript returns the transcript as one string per entry.
func (c *TaskCtx) Transcript() []string {
	out := make([]string, len(c.Tr))
	for i, e := range c.Tr {
		out[i] = e.S
	}
	return out
}

// TranscriptUpTo returns the entries produced while at most n instructions
// had been executed.
func (c *TaskCtx) TranscriptUpTo(n uint64) []string {
	var out []string
	for _, e := range c.Tr {
		if e.At <= n {
			out = append(out, e.S)
		}
	}
	return out
}

// yield is a scheduling point inside host code.
func (c *TaskCtx) yield() {
	if c.T != nil {
		was := false
		if c.Model != nil {
			_, was = c.Model.read()
		}
		c.T.Yield()
		if c.Model != nil {
			if _, now := c.Model.read(); now && !was {
				c.CancelInBuiltin++
			}
		}
	}
}

// faultFor looks up the fault plan. trigger is "call" or "fault".
func (c *TaskCtx) faultFor(trigger string, k uint64) *Fault {
	if c.NoFaults {
		return nil
	}
	for i := range c.W.Faults {
		f := &c.W.Faults[i]
		if f.Task == c.Idx && f.Trigger == trigger && f.K == k {
			return f
		}
	}
	return nil
}

type simPanic struct{ msg string }

func (p simPanic) String() string { return "simulated host panic: " + p.msg }

var errInjected = errors.New("injected host error")

// fire executes a planned fault inside a host built-in.
func (c *TaskCtx) fire(f *Fault, th *starlark.Thread) error {
	c.Fired[f.Kind]++
	c.ExecAtFault = c.Exec
	c.note(EvFault, f.Kind)
	switch f.Kind {
	case "error":
		return fmt.Errorf("%w (%s)", errInjected, f.Payload)
	case "panic":
		panic(simPanic{f.Payload})
	case "cancel":
		th.Cancel(f.Payload)
		if c.Model != nil {
			c.Model.cancel(f.Payload)
		}
		c.note(EvCancel, f.Payload)
	case "yield":
		c.yield()
	case "sleep":
		if c.T != nil {
			c.T.Sleep(int64(len(f.Payload)) + 1)
		}
	}
	return nil
}

// wrap makes a host built-in: counts the call, applies "call"-triggered
// faults before the body, logs enter/exit.
func (w *World) wrap(name string, body func(c *TaskCtx, th *starlark.Thread, b *starlark.Builtin, args starlark.Tuple, kwargs []starlark.Tuple) (starlark.Value, error)) *starlark.Builtin {
	return starlark.NewBuiltin(name, func(th *starlark.Thread, b *starlark.Builtin, args starlark.Tuple, kwargs []starlark.Tuple) (starlark.Value, error) {
		c := ctxOf(th)
		if c == nil {
			return nil, fmt.Errorf("%s: thread has no simulator context", name)
		}
		c.Calls++
		c.inBuiltin++
		defer func() { c.inBuiltin-- }()
		c.note(EvBuiltinEnter, name)
		if f := c.faultFor("call", c.Calls); f != nil {
			if err := c.fire(f, th); err != nil {
				return nil, err
			}
		}
		v, err := body(c, th, b, args, kwargs)
		c.note(EvBuiltinExit, name)
		return v, err
	})
}

// Predeclared builds the host environment offered to workloads.
func (w *World) Predeclared() starlark.StringDict {
	env := starlark.StringDict{
		"json":   json.Module,
		"math":   math.Module,
		"time":   startime.Module,
		"struct": starlark.NewBuiltin("struct", starlarkstruct.Make),
		"module": starlark.NewBuiltin("module", starlarkstruct.MakeModule),
	}
	env["probe"] = w.wrap("probe", func(c *TaskCtx, th *starlark.Thread, b *starlark.Builtin, args starlark.Tuple, kwargs []starlark.Tuple) (starlark.Value, error) {
		var sb strings.Builder
		sb.WriteString("probe:")
		for i, a := range args {
			if i > 0 {
				sb.WriteString(" ")
			}
			sb.WriteString(Canon(a))
		}
		c.record(sb.String())
		return starlark.None, nil
	})
	env["keep"] = w.wrap("keep", func(c *TaskCtx, th *starlark.Thread, b *starlark.Builtin, args starlark.Tuple, kwargs []starlark.Tuple) (starlark.Value, error) {
		if len(args) < 1 {
			return nil, fmt.Errorf("keep: want at least 1 argument")
		}
		name := fmt.Sprintf("k%d", len(c.Kept))
		if len(args) > 1 {
			if s, ok := starlark.AsString(args[1]); ok {
				name = s
			}
		}
		c.Kept = append(c.Kept, args[0])
		c.KeptNames = append(c.KeptNames, name)
		return args[0], nil
	})
	env["attempt"] = w.wrap("attempt", func(c *TaskCtx, th *starlark.Thread, b *starlark.Builtin, args starlark.Tuple, kwargs []starlark.Tuple) (starlark.Value, error) {
		if len(args) < 1 {
			return nil, fmt.Errorf("attempt: want a callable")
		}
		_, err := starlark.Call(th, args[0], args[1:], kwargs)
		if err != nil {
			msg := err.Error()
			if strings.Contains(msg, "Starlark computation cancelled") {
				return nil, err // cancellation is never swallowed
			}
			c.record("attempt:err:" + outcome(err))
			c.note(EvAttempt, "err")
			return starlark.False, nil
		}
		c.record("attempt:ok")
		c.note(EvAttempt, "ok")
		return starlark.True, nil
	})
	env["fault"] = w.wrap("fault", func(c *TaskCtx, th *starlark.Thread, b *starlark.Builtin, args starlark.Tuple, kwargs []starlark.Tuple) (starlark.Value, error) {
		c.FaultCalls++
		if f := c.faultFor("fault", c.FaultCalls); f != nil {
			if err := c.fire(f, th); err != nil {
				return nil, err
			}
		}
		return starlark.None, nil
	})
	env["apply"] = w.wrap("apply", func(c *TaskCtx, th *starlark.Thread, b *starlark.Builtin, args starlark.Tuple, kwargs []starlark.Tuple) (starlark.Value, error) {
		if len(args) < 1 {
			return nil, fmt.Errorf("apply: want a callable")
		}
		c.yield()
		v, err := starlark.Call(th, args[0], args[1:], kwargs)
		c.yield()
		return v, err
	})
	env["each"] = w.wrap("each", func(c *TaskCtx, th *starlark.Thread, b *starlark.Builtin, args starlark.Tuple, kwargs []starlark.Tuple) (starlark.Value, error) {
		// each(iterable, f [, stop_after]) — Go push-iterator loop.
		if len(args) < 2 {
			return nil, fmt.Errorf("each: want (iterable, callable)")
		}
		it, ok := args[0].(starlark.Iterable)
		if !ok {
			return nil, fmt.Errorf("each: %s is not iterable", args[0].Type())
		}
		stop := -1
		if len(args) > 2 {
			if n, err := starlark.AsInt32(args[2]); err == nil {
				stop = n
			}
		}
		i := 0
		var ferr error
		for x := range starlark.Elements(it) {
			if stop >= 0 && i >= stop {
				break
			}
			i++
			if _, err := starlark.Call(th, args[1], starlark.Tuple{x}, nil); err != nil {
				ferr = err
				break
			}
		}
		if ferr != nil {
			return nil, ferr
		}
		return starlark.MakeInt(i), nil
	})
	env["eachkv"] = w.wrap("eachkv", func(c *TaskCtx, th *starlark.Thread, b *starlark.Builtin, args starlark.Tuple, kwargs []starlark.Tuple) (starlark.Value, error) {
		if len(args) < 2 {
			return nil, fmt.Errorf("eachkv: want (mapping, callable)")
		}
		it, ok := args[0].(starlark.IterableMapping)
		if !ok {
			return nil, fmt.Errorf("eachkv: %s is not an iterable mapping", args[0].Type())
		}
		i := 0
		var ferr error
		for k, v := range starlark.Entries(it) {
			i++
			if _, err := starlark.Call(th, args[1], starlark.Tuple{k, v}, nil); err != nil {
				ferr = err
				break
			}
		}
		if ferr != nil {
			return nil, ferr
		}
		return starlark.MakeInt(i), nil
	})
	env["freeze"] = w.wrap("freeze", func(c *TaskCtx, th *starlark.Thread, b *starlark.Builtin, args starlark.Tuple, kwargs []starlark.Tuple) (starlark.Value, error) {
		for _, a := range args {
			a.Freeze()
		}
		c.note(EvFreeze, "")
		if len(args) > 0 {
			return args[0], nil
		}
		return starlark.None, nil
	})
	env["sleep"] = w.wrap("sleep", func(c *TaskCtx, th *starlark.Thread, b *starlark.Builtin, args starlark.Tuple, kwargs []starlark.Tuple) (starlark.Value, error) {
		d := 1
		if len(args) > 0 {
			if n, err := starlark.AsInt32(args[0]); err == nil {
				d = n
			}
		}
		if c.T != nil {
			c.T.Sleep(int64(d))
		}
		return starlark.None, nil
	})
	env["gomutate"] = w.wrap("gomutate", func(c *TaskCtx, th *starlark.Thread, b *starlark.Builtin, args starlark.Tuple, kwargs []starlark.Tuple) (starlark.Value, error) {
		// gomutate(x, op, *args): mutation through the Go API.
		if len(args) < 2 {
			return nil, fmt.Errorf("gomutate: want (value, op, ...)")
		}
		op, _ := starlark.AsString(args[1])
		err := goMutate(args[0], op, args[2:])
		if err != nil {
			return nil, err
		}
		return starlark.None, nil
	})
	return env
}

// goMutate performs a mutation through the public Go API. The method is found
// by (case-insensitive) name with reflection and its arguments are synthesised
// from the parameter types, so that every exported method of *List, *Dict and
// *Set — including ones added later — can be driven without a hand-written table.
func goMutate(v starlark.Value, op string, args starlark.Tuple) error {
	rv := reflect.ValueOf(v)
	rt := rv.Type()
	for i := 0; i < rt.NumMethod(); i++ {
		if !strings.EqualFold(rt.Method(i).Name, op) {
			continue
		}
		m := rv.Method(i)
		in, iters, ok := goArgs(m.Type(), v, args)
		if !ok {
			break
		}
		out := m.Call(in)
		for _, it := range iters {
			it.Done()
		}
		if len(out) > 0 {
			if err, isErr := out[len(out)-1].Interface().(error); isErr {
				return err
			}
		}
		return nil
	}
	return fmt.Errorf("gomutate: unsupported %s on %s", op, v.Type())
}

var (
	tValue    = reflect.TypeOf((*starlark.Value)(nil)).Elem()
	tIterator = reflect.TypeOf((*starlark.Iterator)(nil)).Elem()
	tIterable = reflect.TypeOf((*starlark.Iterable)(nil)).Elem()
	tInt      = reflect.TypeOf(0)
	tError    = reflect.TypeOf((*error)(nil)).Elem()
)

// goArgs synthesises arguments for a Go API method from its parameter types.
func goArgs(mt reflect.Type, recv starlark.Value, args starlark.Tuple) (in []reflect.Value, iters []starlark.Iterator, ok bool) {
	next := 0
	arg := func() starlark.Value {
		if next < len(args) {
			next++
			return args[next-1]
		}
		next++
		return starlark.MakeInt(next + 76)
	}
	if _, isList := recv.(*starlark.List); isList && mt.NumIn() == 2 && mt.In(0) == tInt {
		// SetIndex(i, v): index 0, value = first argument
		if recv.(*starlark.List).Len() == 0 {
			return nil, nil, false
		}
	}
	for i := 0; i < mt.NumIn(); i++ {
		switch t := mt.In(i); {
		case t == tValue:
			in = append(in, reflect.ValueOf(&[]starlark.Value{arg()}[0]).Elem())
		case t == tInt:
			in = append(in, reflect.ValueOf(0))
		case t == tIterator:
			it := starlark.NewList([]starlark.Value{arg(), arg()}).Iterate()
			iters = append(iters, it)
			in = append(in, reflect.ValueOf(&it).Elem())
		case t == tIterable:
			var l starlark.Iterable = starlark.NewList([]starlark.Value{arg(), arg()})
			in = append(in, reflect.ValueOf(&l).Elem())
		default:
			return nil, nil, false
		}
	}
	return in, iters, true
}

var goMutCache sync.Map // type name -> []string

// GoMutators lists the Go-API mutators of a collection type: every exported
// method that changes a fresh sample when called with synthesised arguments.
func GoMutators(v starlark.Value) []string {
	if c, ok := goMutCache.Load(v.Type()); ok {
		return c.([]string)
	}
	fresh := func() starlark.Value {
		switch v.(type) {
		case *starlark.List:
			return starlark.NewList([]starlark.Value{starlark.MakeInt(1), starlark.MakeInt(2), starlark.MakeInt(3)})
		case *starlark.Dict:
			d := starlark.NewDict(2)
			d.SetKey(starlark.String("a"), starlark.MakeInt(1))
			d.SetKey(starlark.String("b"), starlark.MakeInt(2))
			return d
		case *starlark.Set:
			s := starlark.NewSet(3)
			for i := 1; i <= 3; i++ {
				s.Insert(starlark.MakeInt(i))
			}
			return s
		}
		return nil
	}
	var out []string
	if fresh() != nil {
		rt := reflect.TypeOf(v)
		for i := 0; i < rt.NumMethod(); i++ {
			name := rt.Method(i).Name
			mt := rt.Method(i).Type
			if name == "Freeze" || mt.NumOut() == 0 || mt.Out(mt.NumOut()-1) != tError {
				continue // a mutator of the Go API reports failure (frozen, iterating) as an error
			}
			changed := false
			for _, a := range []starlark.Tuple{{starlark.String("a"), starlark.MakeInt(5)}, {starlark.MakeInt(1), starlark.MakeInt(5)}, {starlark.MakeInt(55), starlark.MakeInt(56)}} {
				c := fresh()
				before := Canon(c)
				if pv := safeRun(func() { goMutate(c, name, a) }); pv == nil && Canon(c) != before {
					changed = true
				}
			}
			if changed {
				out = append(out, strings.ToLower(name))
			}
		}
	}
	sort.Strings(out)
	goMutCache.Store(v.Type(), out)
	return out
}

// ---------------------------------------------------------------------------
// Program helpers.

// Compile parses, resolves and compiles source text; the error (if any) is
// static.
func Compile(d Dialect, name, src string, pre starlark.StringDict) (*starlark.Program, error) {
	_, prog, err := starlark.SourceProgramOptions(d.FileOptions(), name, src, pre.Has)
	return prog, err
}

// outcome renders an execution result for comparison: "ok" or the error text
// plus backtrace.
func outcome(err error) string {
	if err == nil {
		return "ok"
	}
	var ee *starlark.EvalError
	if errors.As(err, &ee) {
		return "error: " + ee.Backtrace()
	}
	return "error: " + err.Error()
}

func errText(err error) string {
	if err == nil {
		return ""
	}
	return err.Error()
}

// safeRun calls f and converts a panic into a value.
func safeRun(f func()) (pv any) {
	defer func() {
		if r := recover(); r != nil {
			pv = r
		}
	}()
	f()
	return nil
}
