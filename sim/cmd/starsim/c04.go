package main

import (
	"fmt"
	"sort"
	"strings"
	"sync"

	"go.starlark.net/starlark"
	"go.starlark.net/starlarkstruct"
)

// C04 — values reachable from a finished module are deeply immutable.
//
// A scenario is an object-graph module M, a set of loadable helper modules
// and a fault plan. M is run through ExecFileOptions with none / each of the
// planned aborts (step limit at N, error from the k-th fault() call, planted
// dynamic error, failing load). After ExecFileOptions has returned — value
// or error — the host walks everything reachable from the returned globals
// and drives a tape-ordered history of mutation attempts against it.

type c04 struct{}

func init() { register(c04{}) }

func (c04) ID() string    { return "C04" }
func (c04) Level() string { return "exploration" }
func (c04) Rule() string {
	return "generated object-graph modules (shared, nested, cyclic values; closures over mutable locals; mutable defaults; bound methods and closures as dict keys / set elements; host-supplied and keep()-ed values; loaded modules) x abort points (none; step limit at every N for small modules, sampled otherwise; error at each fault() call; planted dynamic error; failing load) x a seeded history of every discovered mutator (methods, index/augmented assignment from a separately compiled helper module on another thread, Go API, functions of the module called later) on every reachable node. A case is one (module, abort point) execution followed by its mutation history; distinct = distinct (module hash, abort point); non-trivial = the reachable graph contains at least one mutable-typed node and at least one mutation attempt that would change a copy"
}
func (c04) Components() map[string]string {
	return map[string]string{
		"syntax/resolve/compile/VM/library/Freeze/ExecFileOptions": "real",
		"starlarkstruct":    "real",
		"module loader":     "stub (simulator cache; runs real ExecFileOptions on a fresh thread)",
		"mutator catalogue": "discovered at start-up from AttrNames() of list/dict/set samples + syntactic + Go API",
		"reachability walk": "simulator (public accessors ParamDefault/FreeVar/Receiver/Attr)",
	}
}
func (c04) Budget(tier string) int {
	if tier == "thorough" {
		return 60000
	}
	return 2000
}

func (c04) Generate(seed uint64, i int, tier string) *Scenario {
	catalogues()
	r := NewRng(mix64(seed, uint64(i)) ^ 0xc04)
	sc := &Scenario{Prop: "C04", Family: "module", Seed: seed, Index: i, D: RandomDialect(r), N: map[string]int64{}}
	sc.D.GlobalReassign = r.Chance(1, 4)
	var loads []LoadSpec
	if r.Chance(1, 3) {
		lm := GraphModule(r.Fork(), GraphOpts{D: sc.D, Blocks: r.Range(2, 5), ErrorAt: -1, Prefix: "L"})
		// export: every gN name bound in the helper (find by prefix scan)
		names := boundNames(lm)
		if len(names) > 0 {
			if len(names) > 3 {
				names = names[:3]
			}
			sc.Mods = append(sc.Mods, Module{Name: "lib.star", Units: lm})
			loads = append(loads, LoadSpec{Module: "lib.star", Names: names})
		}
	}
	if r.Chance(1, 12) {
		loads = append(loads, LoadSpec{Module: "missing.star", Names: []string{"nothing"}})
	}
	if r.Chance(1, 5) {
		// a module the host built by hand: its values are live, mutable host
		// values; loading binds file-local names only
		loads = append(loads, LoadSpec{Module: "hostmod.star", Names: []string{"hm_list", "hm_dict"}})
	}
	o := GraphOpts{D: sc.D, Blocks: r.Range(3, 12), Faults: true, ErrorAt: -1, SelfRef: r.Chance(1, 6), Host: true, Loads: loads}
	if r.Chance(1, 4) {
		o.ErrorAt = r.Intn(o.Blocks)
	}
	sc.Prog = GraphModule(r.Fork(), o)
	sc.N["attempts"] = int64(r.Range(60, 400))
	sc.N["hseed"] = int64(r.U64() >> 1)
	return sc
}

func boundNames(units []string) []string {
	var out []string
	for _, u := range units {
		if strings.HasPrefix(u, "Lg") {
			if i := strings.Index(u, " = "); i > 0 && !strings.ContainsAny(u[:i], ".[(") {
				out = append(out, u[:i])
			}
		}
	}
	return out
}

// ---------------------------------------------------------------------------

var (
	c04helperOnce sync.Once
	c04helperSrc  string
)

// c04derive: expressions that build a NEW value from a (frozen) value x. The
// result is fresh: it must accept mutation, and mutating it must never show
// through x (a copy that shares storage with the frozen original — a slice
// without a copy, a clone that keeps the table, a sum that keeps the frozen
// flag — breaks one or the other).
var c04derive = map[string][]string{
	"list": {"x[:]", "x[0:len(x)]", "x[::1]", "x + []", "[] + x", "x * 1", "list(x)", "[e for e in x]", "x[::-1]", "x[1:]", "list(reversed(x))", "x[:len(x) // 2 + 1]", "x[-2:]", "list(x[:])", "x[0:][0:]"},
	"dict": {"dict(x)", "x | {}", "{} | x", "dict(x.items())", "{k: v for k, v in x.items()}", "x.items()", "x.keys()", "x.values()", "dict(x, zz=1)", "dict(**x)"},
	"set":  {"set(x)", "x | set()", "x.union([])", "x & x", "x - set()", "x ^ set()", "list(x)", "x.intersection(x)", "x.difference([])", "x.symmetric_difference([])", "set() | x"},
	"tuple": {"list(x)", "list(x[:])", "list(x + ())", "[e for e in x]"},
	"struct": {"x + struct()", "struct() + x", "x + struct(zz_new_field=[1])", "struct(zz_new_field=[1]) + x"},
}

// c04reads: operations that only READ x (they may fail — wrong type, unsortable,
// unencodable — but whatever they do, x and everything else reachable from the
// module must look exactly as before: "no operation whatsoever changes its
// observable state").
var c04reads = []string{
	"json.encode(x)", "json.encode([x, x])", "json.encode({\"k\": x})", "json.indent(json.encode(x))", "str(x)", "repr(x)", "sorted(x)", "sorted(x, reverse=True)",
	"sorted(x.items())", "sorted(x.keys())", "sorted(x.values())", "list(reversed(x))", "min(x)", "max(x)", "list(enumerate(x))", "list(zip(x, x))", "any(x)", "all(x)",
	"len(x)", "bool(x)", "x == x", "x != x", "x < x", "[e for e in x]", "{repr(e): e for e in x}", "x.keys()", "x.values()", "x.items()", "dict(x)", "dict(**x)", "list(x)",
	"tuple(x)", "set(x)", "x | x", "x & x", "x - x", "x ^ x", "x + x", "x * 2", "x[0]", "x[-1]", "x[::2]", "x.get(\"a\")", "x.index(1)", "x.count(1)", "1 in x", "\"a\" in x",
	"hash(x)", "dir(x)", "type(x)", "\"%s %r\" % (x, x)", "\"{} {!r}\".format(x, x)", "\",\".join(x)", "x.union(x)", "x.issubset(x)", "x.difference(x)", "struct(f=x) == struct(f=x)",
	"[x] < [x]", "sum_like(x)", "getattr(x, \"f\", None)", "x.f", "x.a", "str(x.items())", "json.encode(x.items())", "sorted(x, key=lambda e: repr(e))", "max(x, key=lambda e: repr(e))",
}

// helperSource is the separately compiled helper module holding every
// discovered mutator as a one-parameter function.
func helperSource() string {
	c04helperOnce.Do(func() {
		catalogues()
		var sb strings.Builder
		for _, typ := range []string{"list", "dict", "set"} {
			for _, m := range mutators[typ] {
				sb.WriteString(m.Def)
			}
		}
		sb.WriteString("def sum_like(x):\n    t = 0\n    for e in x:\n        t += len(repr(e))\n    return t\n")
		for i, e := range c04reads {
			fmt.Fprintf(&sb, "def read_%d(x):\n    return %s\n", i, e)
		}
		for _, typ := range []string{"list", "dict", "set", "tuple", "struct"} {
			for i, e := range c04derive[typ] {
				fmt.Fprintf(&sb, "def derive_%s_%d(x):\n    return %s\n", typ, i, e)
			}
		}
		c04helperSrc = sb.String()
	})
	return c04helperSrc
}

type c04loader struct {
	sc      *Scenario
	w       *World
	cache   map[string]starlark.StringDict
	errs    map[string]error
	hostMod starlark.StringDict // the hand-built module, once it has been loaded
}

func (l *c04loader) load(th *starlark.Thread, module string) (starlark.StringDict, error) {
	if module == "hostmod.star" {
		if l.hostMod == nil {
			d := starlark.NewDict(1)
			d.SetKey(starlark.String("k"), starlark.NewList([]starlark.Value{starlark.MakeInt(3)}))
			l.hostMod = starlark.StringDict{
				"hm_list":   starlark.NewList([]starlark.Value{starlark.MakeInt(1), starlark.NewList(nil)}),
				"hm_dict":   d,
				"hm_unused": starlark.NewList([]starlark.Value{starlark.MakeInt(7)}),
			}
		}
		return l.hostMod, nil
	}
	if g, ok := l.cache[module]; ok {
		return g, l.errs[module]
	}
	var units []string
	found := false
	for _, m := range l.sc.Mods {
		if m.Name == module {
			units, found = m.Units, true
		}
	}
	if !found {
		return nil, fmt.Errorf("no such module %q", module)
	}
	c := l.w.NewCtx("load:" + module)
	g, err := starlark.ExecFileOptions(l.sc.D.FileOptions(), c.Th, module, strings.Join(units, ""), l.w.Pre)
	l.cache[module], l.errs[module] = g, err
	return g, err
}

type c04exec struct {
	w        *World
	ctx      *TaskCtx
	g        starlark.StringDict
	err      error
	panic    any
	pre      starlark.StringDict
	hostVals map[string]starlark.Value
	loader   *c04loader
	preSnap  string
	uniSnap  string
}

// hostFrozenValues: values the host froze before handing them to the module.
func hostFrozenValues() map[string]starlark.Value {
	mk := func(src string) starlark.Value {
		v, err := starlark.EvalOptions(allOn.FileOptions(), &starlark.Thread{Name: "host"}, "host", src, starlark.StringDict{"struct": starlark.NewBuiltin("struct", starlarkstruct.Make)})
		if err != nil {
			panic("hostFrozenValues: " + err.Error())
		}
		v.Freeze()
		return v
	}
	return map[string]starlark.Value{
		"hf_list":   mk("[1, [2, 3], \"s\"]"),
		"hf_dict":   mk("{\"a\": 1, \"b\": [2]}"),
		"hf_set":    mk("set([1, 2, 3])"),
		"hf_tuple":  mk("(1, [2], \"t\")"),
		"hf_struct": mk("struct(a=1, b=[2], c=struct(d=[3]))"),
	}
}

func envSnapshot(d starlark.StringDict) string {
	var sb strings.Builder
	for _, k := range d.Keys() {
		v := d[k]
		if p := ptrKey(v); p != nil {
			fmt.Fprintf(&sb, "%s@%p;", k, p)
		} else {
			fmt.Fprintf(&sb, "%s=%s:%.40s;", k, v.Type(), safeString(v))
		}
	}
	return sb.String()
}

func c04run(sc *Scenario, faults []Fault, limit uint64) *c04exec {
	w := NewWorld(nil, faults)
	c := w.NewCtx("module")
	pre := w.Predeclared()
	w.addC06Builtins(pre)
	host := map[string]starlark.Value{
		"host_list": starlark.NewList([]starlark.Value{starlark.MakeInt(1), starlark.NewList(nil)}),
		"host_dict": starlark.NewDict(2),
	}
	for k, v := range host {
		pre[k] = v
	}
	for k, v := range hostFrozenValues() {
		pre[k] = v // frozen by the host before the module runs (like values of an earlier module)
	}
	w.Pre = pre
	ex := &c04exec{w: w, ctx: c, pre: pre, hostVals: host}
	ex.loader = &c04loader{sc: sc, w: w, cache: map[string]starlark.StringDict{}, errs: map[string]error{}}
	c.Th.Load = ex.loader.load
	if limit > 0 {
		c.Th.SetMaxExecutionSteps(limit)
	} else {
		c.Th.SetMaxExecutionSteps(500000)
	}
	ex.preSnap = envSnapshot(pre)
	ex.uniSnap = envSnapshot(starlark.Universe)
	ex.panic = safeRun(func() {
		ex.g, ex.err = starlark.ExecFileOptions(sc.D.FileOptions(), c.Th, "m.star", sc.Source(), pre)
	})
	return ex
}

func (p c04) Run(sc *Scenario) *Result {
	catalogues()
	res := NewResult()
	// static validity (with the same predeclared names)
	{
		w := NewWorld(nil, nil)
		pre := w.Predeclared()
		w.addC06Builtins(pre)
		pre["host_list"], pre["host_dict"] = starlark.None, starlark.None
		for k := range hostFrozenValues() {
			pre[k] = starlark.None
		}
		if _, err := Compile(sc.D, "m.star", sc.Source(), pre); err != nil {
			res.Invalid = true
			return res
		}
		for _, m := range sc.Mods {
			if _, err := Compile(sc.D, m.Name, strings.Join(m.Units, ""), pre); err != nil {
				res.Invalid = true
				return res
			}
		}
	}
	res.Sig = hashStr(sc.Source())
	ref := c04run(sc, nil, 0)
	res.Evals++
	if ref.panic != nil {
		res.Violate("panic", "module initialisation panicked: %v", ref.panic)
		return res
	}
	S := ref.ctx.Exec
	nf := ref.ctx.FaultCalls
	res.Mix(CanonDict(ref.g), outcome(ref.err), fmt.Sprint(S, nf))
	if ref.err != nil {
		res.Count("modules_failing_by_themselves", 1)
	}
	p.oracle(sc, ref, "no abort", int(sc.Knob("attempts", 200))*2, res)
	if sc.Knob("single", 0) == 1 {
		return res
	}
	// abort points
	var limits []uint64
	if len(sc.Limits) > 0 {
		limits = sc.Limits
	} else if S <= 120 {
		for n := uint64(1); n <= S; n++ {
			limits = append(limits, n)
		}
	} else {
		r := NewRng(hashStr(sc.Source()) ^ 0x11)
		for k := 0; k < 40; k++ {
			limits = append(limits, uint64(r.Range(1, int(S))))
		}
		for n := S - 6; n <= S; n++ {
			limits = append(limits, n)
		}
	}
	for _, N := range limits {
		ex := c04run(sc, nil, N)
		res.Evals++
		res.Count("fault_step_limit", 1)
		if ex.panic != nil {
			res.Violate("panic", "limit %d: %v", N, ex.panic)
			continue
		}
		p.oracle(sc, ex, fmt.Sprintf("step limit %d", N), int(sc.Knob("attempts", 200))/3, res)
	}
	plan := sc.Faults
	if len(plan) == 0 {
		for k := uint64(1); k <= nf && k <= 20; k++ {
			plan = append(plan, Fault{Kind: "error", Task: 0, Trigger: "fault", K: k, Payload: "c04"})
		}
	}
	for _, f := range plan {
		ex := c04run(sc, []Fault{f}, 0)
		res.Evals++
		if ex.ctx.Fired[f.Kind] == 0 {
			continue
		}
		res.Count("fault_"+f.Kind, 1)
		if ex.panic != nil {
			res.Violate("panic", "%s at fault() %d: %v", f.Kind, f.K, ex.panic)
			continue
		}
		p.oracle(sc, ex, fmt.Sprintf("error at fault() call %d", f.K), int(sc.Knob("attempts", 200))/3, res)
	}
	return res
}

// oracle interrogates the world after ExecFileOptions has returned.
func (p c04) oracle(sc *Scenario, ex *c04exec, what string, attempts int, res *Result) {
	g := ex.g
	if ex.err != nil {
		res.Count("aborted_executions", 1)
	}
	// 4. environment untouched
	if s := envSnapshot(ex.pre); s != ex.preSnap {
		res.Violate("predeclared-changed", "%s: predeclared environment changed: %.300s -> %.300s", what, ex.preSnap, s)
	}
	if s := envSnapshot(starlark.Universe); s != ex.uniSnap {
		res.Violate("universe-changed", "%s: universe changed", what)
	}
	if d := ex.ctx.Th.CallStackDepth(); d != 0 {
		res.Violate("stack-depth", "%s: depth %d", what, d)
	}
	if g == nil {
		return
	}
	nodes := Walk(g)
	inR := map[any]bool{}
	for _, n := range nodes {
		inR[ptrKey(n.V)] = true
		for _, edge := range []string{".free(", ".default", ".recv", ".key", ".elem", ".ctor"} {
			if strings.Contains(n.Path, edge) && IsCollection(n.V) {
				res.Count("probe_frozen_via"+strings.TrimRight(edge, "("), 1)
			}
		}
	}
	// values reachable from loaded modules are frozen too
	for _, lg := range ex.loader.cache {
		for _, n := range Walk(lg) {
			inR[ptrKey(n.V)] = true
		}
	}
	before := CanonDict(g)
	// helper module on its own thread
	hw := NewWorld(nil, nil)
	hc := hw.NewCtx("helper")
	hpre := hw.Predeclared()
	hg, herr := starlark.ExecFileOptions(allOn.FileOptions(), hc.Th, "helper.star", helperSource(), hpre)
	if herr != nil {
		res.Violate("harness-panic", "helper module: %v", herr)
		return
	}
	// 2. history of mutation attempts
	r := NewRng(uint64(sc.Knob("hseed", 1)) ^ hashStr(what))
	var targets []Node
	for _, n := range nodes {
		if IsCollection(n.V) {
			targets = append(targets, n)
		}
	}
	res.Count("reachable_nodes", int64(len(nodes)))
	res.Count("reachable_mutable_typed_nodes", int64(len(targets)))
	var callables []Node
	for _, n := range nodes {
		if f, ok := n.V.(*starlark.Function); ok {
			callables = append(callables, Node{f, n.Path})
		}
	}
	would := 0
	type attempt struct {
		node Node
		m    mutatorDef
	}
	var all []attempt
	for _, n := range targets {
		// one argument-shape variant of every mutator group per node
		for _, grp := range mutatorGroups(n.V.Type()) {
			all = append(all, attempt{n, grp[r.Intn(len(grp))]})
		}
	}
	// tape-ordered: shuffle, truncate
	for i := len(all) - 1; i > 0; i-- {
		j := r.Intn(i + 1)
		all[i], all[j] = all[j], all[i]
	}
	if len(all) > attempts {
		all = all[:attempts]
	}
	check := func(desc string) bool {
		if after := CanonDict(g); after != before {
			res.Violate("frozen-value-changed", "%s: %s changed the module's reachable state:\n  before %.400s\n  after  %.400s", what, desc, before, after)
			before = after
			return false
		}
		return true
	}
	for i, a := range all {
		fn := hg[a.m.Name]
		cp := shallowCopy(a.node.V)
		cb := Canon(cp)
		_, errc := starlark.Call(hc.Th, fn, starlark.Tuple{cp}, nil)
		changes := errc == nil && Canon(cp) != cb
		_, err := starlark.Call(hc.Th, fn, starlark.Tuple{a.node.V}, nil)
		if changes {
			would++
			if err == nil {
				res.Violate("mutation-of-reachable-value-succeeded", "%s: %s on %s (%s) returned no error", what, strings.TrimSpace(strings.SplitN(a.m.Def, "\n", 3)[1]), a.node.Path, a.node.V.Type())
			}
		}
		check(fmt.Sprintf("%s on %s", a.m.Name, a.node.Path))
		// interleave reads and calls of the module's own functions
		if i%7 == 3 && len(callables) > 0 {
			f := callables[r.Intn(len(callables))]
			if fv := f.V.(*starlark.Function); fv.NumParams()-fv.NumKwonlyParams() == 0 || allDefaults(fv) {
				hc.Th.SetMaxExecutionSteps(hc.Th.ExecutionSteps() + 50000)
				safeRun(func() { starlark.Call(hc.Th, fv, nil, nil) })
				hc.Th.Uncancel()
				hc.Th.SetMaxExecutionSteps(1 << 62)
				res.Count("module_functions_called_later", 1)
				check(fmt.Sprintf("calling %s (%s)", fv.Name(), f.Path))
			}
		}
	}
	// 2a. read-only operations (Starlark built-ins and operators; Go API reads
	// followed by the host scribbling over what it was handed, which the API
	// documents as fresh copies): nothing reachable may look different afterwards
	var readable []Node
	for _, n := range nodes {
		switch n.V.(type) {
		case *starlark.List, *starlark.Dict, *starlark.Set, starlark.Tuple, *starlarkstruct.Struct:
			readable = append(readable, n)
		}
	}
	tupleNodes := WalkTuples(g)
	for k := 0; k < attempts/8 && len(readable) > 0; k++ {
		n := readable[r.Intn(len(readable))]
		if len(tupleNodes) > 0 && r.Chance(1, 4) {
			n = tupleNodes[r.Intn(len(tupleNodes))]
		}
		if r.Chance(1, 5) {
			switch v := n.V.(type) {
			case *starlark.Dict:
				items := v.Items()
				for i := range items {
					items[i] = starlark.Tuple{starlark.String("scribble"), starlark.None}
				}
				keys := v.Keys()
				for i := range keys {
					keys[i] = starlark.None
				}
				check("scribbling over the slices returned by Dict.Items()/Keys() of " + n.Path)
			case *starlarkstruct.Struct:
				names := v.AttrNames()
				for i := range names {
					names[i] = "scribble"
				}
				d := starlark.StringDict{}
				v.ToStringDict(d)
				for k := range d {
					d[k] = starlark.None
				}
				check("scribbling over Struct.AttrNames()/ToStringDict of " + n.Path)
			}
			continue
		}
		ri := r.Intn(len(c04reads))
		if _, isTuple := n.V.(starlark.Tuple); isTuple && r.Chance(2, 3) {
			// tuples: the reads that reorder or rebuild a sequence
			var pick []int
			for i, e := range c04reads {
				if strings.Contains(e, "sorted(") || strings.Contains(e, "reversed(") || strings.Contains(e, "max(") || strings.Contains(e, "min(") || strings.HasPrefix(e, "x + x") || strings.HasPrefix(e, "x * 2") {
					pick = append(pick, i)
				}
			}
			ri = pick[r.Intn(len(pick))]
			res.Count("probe_reordering_reads_on_tuples", 1)
		}
		hc.Th.SetMaxExecutionSteps(hc.Th.ExecutionSteps() + 20000)
		safeRun(func() { starlark.Call(hc.Th, hg[fmt.Sprintf("read_%d", ri)], starlark.Tuple{n.V}, nil) })
		hc.Th.Uncancel()
		hc.Th.SetMaxExecutionSteps(1 << 62)
		res.Count("read_only_operations", 1)
		check(fmt.Sprintf("the read-only operation %s on %s", c04reads[ri], n.Path))
	}
	// 2b. values derived from frozen ones: fresh, mutable, and not sharing
	// storage with their frozen source
	var sources []Node
	for _, n := range nodes {
		switch n.V.(type) {
		case *starlark.List, *starlark.Dict, *starlark.Set, starlark.Tuple, *starlarkstruct.Struct:
			sources = append(sources, n)
		}
	}
	for k := 0; k < attempts/8 && len(sources) > 0; k++ {
		n := sources[r.Intn(len(sources))]
		typ := n.V.Type()
		exprs := c04derive[typ]
		if len(exprs) == 0 {
			continue
		}
		di := r.Intn(len(exprs))
		var y starlark.Value
		var derr error
		if pv := safeRun(func() {
			y, derr = starlark.Call(hc.Th, hg[fmt.Sprintf("derive_%s_%d", typ, di)], starlark.Tuple{n.V}, nil)
		}); pv != nil || derr != nil || y == nil {
			continue // e.g. dict(**x) with non-string keys
		}
		res.Count("derived_values_built", 1)
		desc := fmt.Sprintf("%s of %s", exprs[di], n.Path)
		if !check("building " + desc) {
			continue
		}
		var victims []starlark.Value
		if IsCollection(y) {
			victims = append(victims, y)
		}
		if st, ok := y.(*starlarkstruct.Struct); ok {
			// struct sums: the new field's value must be reachable for mutation,
			// and a later Freeze of the sum must still reach it
			if v, err := st.Attr("zz_new_field"); err == nil {
				victims = append(victims, v)
				st.Freeze()
				if NeutralMutation(v) == nil {
					res.Violate("freeze-skipped-derived-value", "%s: %s: after Freeze() of the sum, the list in its new field still accepts mutation", what, desc)
				}
				continue
			}
		}
		for _, yv := range victims {
			grp := mutatorGroups(yv.Type())
			m := grp[r.Intn(len(grp))]
			m1 := m[r.Intn(len(m))]
			cp := shallowCopy(yv)
			cb := Canon(cp)
			_, errc := starlark.Call(hc.Th, hg[m1.Name], starlark.Tuple{cp}, nil)
			changes := errc == nil && Canon(cp) != cb
			_, err := starlark.Call(hc.Th, hg[m1.Name], starlark.Tuple{yv}, nil)
			if changes && err != nil && (strings.Contains(err.Error(), "frozen") || strings.Contains(err.Error(), "during iteration")) {
				res.Violate("unreachable-value-frozen", "%s: %s is a new value, yet %s on it failed: %v", what, desc, strings.TrimSpace(strings.SplitN(m1.Def, "\n", 3)[1]), err)
			}
			res.Count("derived_values_mutated", 1)
			check(fmt.Sprintf("%s on the new value %s", strings.TrimSpace(strings.SplitN(m1.Def, "\n", 3)[1]), desc))
		}
	}
	if would > 0 && len(targets) > 0 {
		res.Nontrivial = true
	}
	res.Count("attempts_that_would_change_a_copy", int64(would))
	// 3. unreachable stays mutable
	for i, v := range ex.ctx.Kept {
		if IsCollection(v) && !inR[ptrKey(v)] {
			res.Count("probe_unreachable_kept_checked", 1)
			if err := NeutralMutation(v); err != nil {
				res.Violate("unreachable-value-frozen", "%s: keep()-ed %s %s is not reachable from the globals but rejects mutation: %v", what, v.Type(), ex.ctx.KeptNames[i], err)
			}
		}
	}
	// values of the hand-built module that the finished module's globals do not reach
	for _, k := range ex.loader.hostMod.Keys() {
		v := ex.loader.hostMod[k]
		if !inR[ptrKey(v)] {
			res.Count("probe_unreachable_loaded_host_value_checked", 1)
			if err := NeutralMutation(v); err != nil {
				res.Violate("unreachable-value-frozen", "%s: %s of the host-built module was only loaded (names bound by load are file-local), is not reachable from the globals, yet rejects mutation: %v", what, k, err)
			}
		}
	}
	names := make([]string, 0, len(ex.hostVals))
	for k := range ex.hostVals {
		names = append(names, k)
	}
	sort.Strings(names)
	for _, k := range names {
		v := ex.hostVals[k]
		if !inR[ptrKey(v)] {
			res.Count("probe_unreachable_host_value_checked", 1)
			if err := NeutralMutation(v); err != nil {
				res.Violate("unreachable-value-frozen", "%s: host value %s is not reachable from the globals but rejects mutation: %v", what, k, err)
			}
		} else {
			res.Count("probe_host_value_stored_and_frozen", 1)
		}
	}
}

func allDefaults(f *starlark.Function) bool {
	n := f.NumParams()
	if f.HasKwargs() {
		n--
	}
	if f.HasVarargs() {
		n--
	}
	for i := 0; i < n; i++ {
		if f.ParamDefault(i) == nil {
			return false
		}
	}
	return true
}

func (c04) Shrink(sc *Scenario) []*Scenario {
	var out []*Scenario
	if sc.Knob("single", 0) == 0 && len(sc.Limits) == 0 && len(sc.Faults) == 0 {
		c := sc.Clone()
		c.N["single"] = 1
		out = append(out, c)
	}
	for i := range sc.Mods {
		c := sc.Clone()
		c.Mods = append(c.Mods[:i], c.Mods[i+1:]...)
		out = append(out, c)
	}
	return out
}

func (c04) Shape(sc *Scenario, class string) string {
	return class + "/" + strings.Join(sourceFeatures(sc.D, sc.Source()), "+")
}
