package main

import (
	"fmt"
	"strings"
)

// Program generator: emits statically valid Starlark over the core language,
// type-directed so that most programs run to completion and the rest die at a
// dynamic error somewhere in the middle.
//
// The output is a list of top-level "units" (a def, an assignment, a call …),
// so a minimiser can delete units and lines and re-check static validity.

type kind int

const (
	kInt kind = iota
	kStr
	kBool
	kListI
	kListS
	kDictSI
	kDictIS
	kSetI
	kTup
	kStruct
	kNumKinds
)

func (k kind) isColl() bool {
	return k == kListI || k == kListS || k == kDictSI || k == kDictIS || k == kSetI
}

type gvar struct {
	name   string
	k      kind
	global bool
	iter   int // >0 while being iterated by an enclosing loop
}

type gfunc struct {
	name    string
	npos    int // required positional (ints)
	nopt    int // optional positional (ints)
	varargs bool
	kwonly  int
	kwargs  bool
	ret     kind
	rec     bool
}

type GenOpts struct {
	D           Dialect
	Units       int  // approx number of top-level units
	ErrPermille int  // chance per statement of planting a dynamic error site
	Probes      bool // emit probe() calls
	Host        bool // may call host built-ins attempt/apply/fault/each
	Time        bool
	JSON        bool
	Loads       []LoadSpec // names importable via load()
	NoPrint     bool
	MutGlobals  bool // functions may mutate global collections
}

type LoadSpec struct {
	Module string
	Names  []string // exported function/variable names (int-returning nullary functions or ints)
	Kinds  []kind   // kind of each name; functions are listed as kInt-returning callables when Fn is true
	Fn     []bool
}

type Gen struct {
	r        *Rng
	o        GenOpts
	units    []string
	sb       strings.Builder
	ind      int
	globals  []*gvar
	locals   [][]*gvar
	funcs    []*gfunc
	nid      int
	loop     int
	inFunc   bool
	stmts    int
	budget   int
	curFunc  *gfunc
	fieldSet int
}

func NewGen(r *Rng, o GenOpts) *Gen {
	if o.Units == 0 {
		o.Units = 12
	}
	return &Gen{r: r, o: o}
}

func (g *Gen) randKind() kind {
	for {
		k := kind(g.r.Intn(int(kNumKinds)))
		if k == kSetI && !g.o.D.Set {
			continue
		}
		return k
	}
}

func (g *Gen) randColl() kind {
	for {
		k := kind(g.r.Range(int(kListI), int(kSetI)))
		if k == kSetI && !g.o.D.Set {
			continue
		}
		return k
	}
}

func (g *Gen) fresh(p string) string { g.nid++; return fmt.Sprintf("%s%d", p, g.nid) }

func (g *Gen) line(format string, args ...any) {
	g.sb.WriteString(strings.Repeat("    ", g.ind))
	fmt.Fprintf(&g.sb, format, args...)
	g.sb.WriteString("\n")
}

func (g *Gen) endUnit() {
	if g.sb.Len() > 0 {
		g.units = append(g.units, g.sb.String())
		g.sb.Reset()
	}
}

// Program generates a whole module.
func (g *Gen) Program() []string {
	// loads first
	for _, l := range g.o.Loads {
		var parts []string
		for i, n := range l.Names {
			parts = append(parts, fmt.Sprintf("%q", n))
			if l.Fn[i] {
				g.funcs = append(g.funcs, &gfunc{name: n, ret: kInt})
			} else {
				g.globals = append(g.globals, &gvar{name: n, k: l.Kinds[i], global: true, iter: 1000}) // loaded values are frozen: never mutate
			}
		}
		g.line("load(%q, %s)", l.Module, strings.Join(parts, ", "))
		g.endUnit()
	}
	// a few seed globals so expressions have something to chew on
	for _, k := range []kind{kInt, kStr, kListI, kDictSI} {
		g.globalAssign(k)
	}
	for len(g.units) < g.o.Units {
		g.topUnit()
	}
	return g.units
}

func (g *Gen) globalAssign(k kind) {
	name := g.fresh("g")
	g.line("%s = %s", name, g.expr(k, 2))
	g.globals = append(g.globals, &gvar{name: name, k: k, global: true})
	g.endUnit()
}

func (g *Gen) topUnit() {
	switch n := g.r.Intn(100); {
	case n < 30:
		g.defUnit()
	case n < 50:
		g.globalAssign(g.randKind())
	case n < 70 && len(g.funcs) > 0:
		// call a function at top level and keep / show the result
		f := g.funcs[g.r.Intn(len(g.funcs))]
		if g.r.Bool() {
			name := g.fresh("g")
			g.line("%s = %s", name, g.call(f, 1))
			g.globals = append(g.globals, &gvar{name: name, k: f.ret, global: true})
		} else {
			g.show(g.call(f, 1))
		}
		g.endUnit()
	case n < 80:
		g.show(g.expr(g.randKind(), 3))
		g.endUnit()
	case n < 90 && g.o.D.TopLevelControl:
		g.budget = g.r.Range(3, 8)
		g.locals = append(g.locals, nil) // top-level loop variables behave like globals but we treat them as scoped names
		g.compound(2)
		g.locals = g.locals[:len(g.locals)-1]
		g.endUnit()
	case n < 95:
		g.mutateStmt(true)
		g.endUnit()
	default:
		g.defUnit()
	}
}

func (g *Gen) show(e string) {
	if g.o.Probes && (g.o.NoPrint || g.r.Bool()) {
		g.line("probe(%s)", e)
	} else if !g.o.NoPrint {
		g.line("print(%s)", e)
	} else {
		g.line("probe(%s)", e)
	}
}

// ---- functions ----

func (g *Gen) defUnit() {
	f := &gfunc{name: g.fresh("f"), npos: g.r.Intn(3), nopt: g.r.Intn(2), varargs: g.r.Chance(1, 4), kwonly: 0, kwargs: g.r.Chance(1, 5), ret: kInt}
	if g.r.Chance(1, 4) {
		f.kwonly = 1
	}
	switch g.r.Intn(6) {
	case 0:
		f.ret = kListI
	case 1:
		f.ret = kStr
	case 2:
		f.ret = kDictSI
	}
	if g.o.D.Recursion && g.r.Chance(1, 4) && f.npos > 0 {
		f.rec = true
		f.ret = kInt
	}
	var params []string
	var ps []*gvar
	for i := 0; i < f.npos; i++ {
		n := fmt.Sprintf("a%d", i)
		params = append(params, n)
		ps = append(ps, &gvar{name: n, k: kInt})
	}
	for i := 0; i < f.nopt; i++ {
		n := fmt.Sprintf("o%d", i)
		params = append(params, fmt.Sprintf("%s=%s", n, g.expr(kInt, 0)))
		ps = append(ps, &gvar{name: n, k: kInt})
	}
	if f.varargs {
		params = append(params, "*args")
	} else if f.kwonly > 0 {
		params = append(params, "*")
	}
	for i := 0; i < f.kwonly; i++ {
		n := fmt.Sprintf("k%d", i)
		params = append(params, fmt.Sprintf("%s=%d", n, g.r.Intn(9)))
		ps = append(ps, &gvar{name: n, k: kInt})
	}
	if f.kwargs {
		params = append(params, "**kw")
	}
	g.line("def %s(%s):", f.name, strings.Join(params, ", "))
	g.ind++
	g.locals = append(g.locals, ps)
	wasIn, wasF := g.inFunc, g.curFunc
	g.inFunc, g.curFunc = true, f
	if f.varargs {
		g.addLocal(&gvar{name: "args", k: kTup, iter: 1000})
	}
	if f.rec {
		g.line("if a0 <= 0:")
		g.line("    return %s", g.expr(kInt, 1))
	}
	g.budget = g.r.Range(2, 9)
	for g.budget > 0 {
		g.stmt(0)
	}
	if f.rec {
		g.line("return %s(a0 - %d%s) + %s", f.name, g.r.Range(1, 2), g.restArgs(f), g.expr(kInt, 1))
	} else {
		g.line("return %s", g.expr(f.ret, 2))
	}
	g.inFunc, g.curFunc = wasIn, wasF
	g.locals = g.locals[:len(g.locals)-1]
	g.ind--
	g.funcs = append(g.funcs, f)
	g.endUnit()
}

func (g *Gen) restArgs(f *gfunc) string {
	s := ""
	for i := 1; i < f.npos; i++ {
		s += ", " + g.expr(kInt, 0)
	}
	return s
}

func (g *Gen) call(f *gfunc, depth int) string {
	var args []string
	named := g.r.Chance(1, 5)
	star := false
	if f.npos > 0 && g.r.Chance(1, 6) && !named {
		star = true
		// *sequence form
		var xs []string
		for i := 0; i < f.npos; i++ {
			xs = append(xs, g.expr(kInt, depth-1))
		}
		if g.r.Bool() {
			args = append(args, "*["+strings.Join(xs, ", ")+"]")
		} else {
			args = append(args, "*("+strings.Join(xs, ", ")+",)")
		}
	} else {
		for i := 0; i < f.npos; i++ {
			if named {
				args = append(args, fmt.Sprintf("a%d=%s", i, g.expr(kInt, depth-1)))
			} else {
				args = append(args, g.expr(kInt, depth-1))
			}
		}
		if f.nopt > 0 && g.r.Bool() {
			if named || g.r.Bool() {
				args = append(args, fmt.Sprintf("o0=%s", g.expr(kInt, depth-1)))
				named = true
			} else {
				args = append(args, g.expr(kInt, depth-1))
			}
		}
		if f.varargs && !named && (f.nopt == 0 || len(args) == f.npos+f.nopt) && g.r.Bool() {
			args = append(args, g.expr(kInt, depth-1))
		}
	}
	if f.kwonly > 0 && g.r.Bool() && !star {
		args = append(args, fmt.Sprintf("k0=%s", g.expr(kInt, depth-1)))
	}
	if f.kwargs && g.r.Bool() {
		if g.r.Bool() && !star {
			args = append(args, fmt.Sprintf("zz=%s", g.expr(kInt, depth-1)))
		} else {
			args = append(args, fmt.Sprintf("**{%q: %s}", g.fresh("kw"), g.expr(kInt, depth-1)))
		}
	}
	return fmt.Sprintf("%s(%s)", f.name, strings.Join(args, ", "))
}

// ---- scopes ----

func (g *Gen) addLocal(v *gvar) {
	if len(g.locals) == 0 {
		g.globals = append(g.globals, v)
		v.global = true
		return
	}
	g.locals[len(g.locals)-1] = append(g.locals[len(g.locals)-1], v)
}

// vars of kind k visible here.
func (g *Gen) visible(k kind) []*gvar {
	var out []*gvar
	for _, sc := range g.locals {
		for _, v := range sc {
			if v.k == k {
				out = append(out, v)
			}
		}
	}
	for _, v := range g.globals {
		if v.k == k {
			out = append(out, v)
		}
	}
	return out
}

func (g *Gen) pickVar(k kind) *gvar {
	vs := g.visible(k)
	if len(vs) == 0 {
		return nil
	}
	return vs[g.r.Intn(len(vs))]
}

// mutable collection variables: locals always; globals only where allowed.
func (g *Gen) pickMutable() *gvar {
	var out []*gvar
	for _, sc := range g.locals {
		for _, v := range sc {
			if v.k.isColl() && v.iter == 0 {
				out = append(out, v)
			}
		}
	}
	if !g.inFunc || g.o.MutGlobals {
		for _, v := range g.globals {
			if v.k.isColl() && v.iter == 0 {
				out = append(out, v)
			}
		}
	}
	if len(out) == 0 {
		return nil
	}
	return out[g.r.Intn(len(out))]
}

// ---- statements ----

func (g *Gen) stmt(depth int) {
	g.budget--
	g.stmts++
	if g.o.ErrPermille > 0 && g.r.Intn(1000) < g.o.ErrPermille {
		g.errorSite()
		return
	}
	switch n := g.r.Intn(100); {
	case n < 22:
		k := g.randKind()
		name := g.fresh("v")
		g.line("%s = %s", name, g.expr(k, 2))
		g.addLocal(&gvar{name: name, k: k})
	case n < 36:
		g.mutateStmt(false)
	case n < 50 && depth < 3:
		g.compound(depth + 1)
	case n < 60:
		g.show(g.expr(g.randKind(), 2))
	case n < 66:
		// augmented assignment on a local int/str/list
		if !g.inFunc && !g.o.D.GlobalReassign {
			g.line("pass")
		} else if v := g.pickLocal(kInt); v != nil {
			g.line("%s %s %s", v.name, g.r.Pick([]string{"+=", "-=", "*=", "|=", "&=", "^="}), g.expr(kInt, 1))
		} else if v := g.pickLocal(kStr); v != nil {
			g.line("%s += %s", v.name, g.expr(kStr, 1))
		} else {
			g.line("pass")
		}
	case n < 72:
		// unpacking assignment
		a, b := g.fresh("v"), g.fresh("v")
		switch g.r.Intn(3) {
		case 0:
			g.line("%s, %s = %s, %s", a, b, g.expr(kInt, 1), g.expr(kStr, 1))
		case 1:
			g.line("[%s, %s] = %s", a, b, g.expr(kTup, 1))
		default:
			g.line("(%s, %s) = (%s, %s)", a, b, g.expr(kInt, 1), g.expr(kStr, 1))
		}
		g.addLocal(&gvar{name: a, k: kInt})
		g.addLocal(&gvar{name: b, k: kStr})
	case n < 80 && len(g.funcs) > 0:
		f := g.funcs[g.r.Intn(len(g.funcs))]
		if f != g.curFunc {
			name := g.fresh("v")
			g.line("%s = %s", name, g.call(f, 1))
			g.addLocal(&gvar{name: name, k: f.ret})
		} else {
			g.line("pass")
		}
	case n < 86 && g.inFunc && depth < 2:
		g.closure()
	case n < 90 && g.o.Host:
		g.hostStmt()
	case n < 93 && g.inFunc && g.loop == 0 && g.curFunc != nil && !g.curFunc.rec:
		g.line("if %s:", g.expr(kBool, 1))
		g.line("    return %s", g.expr(g.curFunc.ret, 1))
	default:
		name := g.fresh("v")
		g.line("%s = %s", name, g.comprehension())
		g.addLocal(&gvar{name: name, k: kListI})
	}
}

func (g *Gen) pickLocal(k kind) *gvar {
	var out []*gvar
	for _, sc := range g.locals {
		for _, v := range sc {
			if v.k == k && v.iter == 0 {
				out = append(out, v)
			}
		}
	}
	if len(out) == 0 {
		return nil
	}
	return out[g.r.Intn(len(out))]
}

func (g *Gen) block(depth int) {
	g.ind++
	n := g.r.Range(1, 3)
	for i := 0; i < n; i++ {
		g.stmt(depth)
	}
	g.ind--
}

func (g *Gen) compound(depth int) {
	switch n := g.r.Intn(100); {
	case n < 45:
		// for loop
		src, ek, v := g.iterSource()
		x := g.fresh("x")
		if ek == kTup {
			y := g.fresh("y")
			g.line("for %s, %s in %s:", x, y, src)
			g.locals = append(g.locals, []*gvar{{name: x, k: kInt}, {name: y, k: kStr}})
		} else {
			g.line("for %s in %s:", x, src)
			g.locals = append(g.locals, []*gvar{{name: x, k: ek}})
		}
		if v != nil {
			v.iter++
		}
		g.loop++
		g.block(depth)
		if g.r.Chance(1, 4) {
			g.ind++
			g.line("if %s:", g.expr(kBool, 1))
			g.line("    %s", g.r.Pick([]string{"break", "continue"}))
			g.ind--
		}
		g.loop--
		if v != nil {
			v.iter--
		}
		g.locals = g.locals[:len(g.locals)-1]
	case n < 75:
		g.line("if %s:", g.expr(kBool, 2))
		g.locals = append(g.locals, nil)
		g.block(depth)
		g.locals = g.locals[:len(g.locals)-1]
		if g.r.Chance(1, 3) {
			g.line("elif %s:", g.expr(kBool, 1))
			g.locals = append(g.locals, nil)
			g.block(depth)
			g.locals = g.locals[:len(g.locals)-1]
		}
		if g.r.Bool() {
			g.line("else:")
			g.locals = append(g.locals, nil)
			g.block(depth)
			g.locals = g.locals[:len(g.locals)-1]
		}
	case n < 88 && g.o.D.While && (g.inFunc || g.o.D.GlobalReassign):
		i := g.fresh("i")
		g.line("%s = 0", i)
		g.line("while %s < %d:", i, g.r.Range(1, 5))
		g.locals = append(g.locals, []*gvar{{name: i, k: kInt, iter: 1000}})
		g.loop++
		g.block(depth)
		g.loop--
		g.locals = g.locals[:len(g.locals)-1]
		g.line("    %s += 1", i)
	default:
		// nested loops over the same collection
		if v := g.pickVar(kListI); v != nil {
			x, y := g.fresh("x"), g.fresh("y")
			g.line("for %s in %s:", x, v.name)
			g.line("    for %s in %s:", y, v.name)
			g.ind += 2
			v.iter++
			g.loop++
			g.locals = append(g.locals, []*gvar{{name: x, k: kInt}, {name: y, k: kInt}})
			g.stmt(depth + 1)
			g.locals = g.locals[:len(g.locals)-1]
			g.loop--
			v.iter--
			g.ind -= 2
		} else {
			g.line("pass")
		}
	}
}

// iterSource returns an iterable expression, the kind of its elements and the
// variable that is locked while iterating (if any).
func (g *Gen) iterSource() (string, kind, *gvar) {
	switch g.r.Intn(9) {
	case 0:
		return fmt.Sprintf("range(%d)", g.r.Range(0, 5)), kInt, nil
	case 1:
		if v := g.pickVar(kListI); v != nil {
			return v.name, kInt, v
		}
	case 2:
		if v := g.pickVar(kListS); v != nil {
			return v.name, kStr, v
		}
	case 3:
		if v := g.pickVar(kDictSI); v != nil {
			return v.name, kStr, v
		}
	case 4:
		if v := g.pickVar(kDictIS); v != nil {
			if g.r.Bool() {
				return v.name + ".items()", kTup, nil
			}
			return v.name, kInt, v
		}
	case 5:
		if v := g.pickVar(kSetI); v != nil {
			return v.name, kInt, v
		}
	case 6:
		return fmt.Sprintf("enumerate(%s)", g.expr(kListS, 1)), kTup, nil
	case 7:
		return fmt.Sprintf("%s.elems()", g.expr(kStr, 1)), kStr, nil
	}
	return g.expr(kListI, 1), kInt, nil
}

func (g *Gen) mutateStmt(top bool) {
	v := g.pickMutable()
	if v == nil {
		g.line("pass")
		return
	}
	switch v.k {
	case kListI:
		switch g.r.Intn(6) {
		case 0:
			g.line("%s.append(%s)", v.name, g.expr(kInt, 1))
		case 1:
			g.line("%s.extend(%s)", v.name, g.expr(kListI, 1))
		case 2:
			g.line("%s.insert(%d, %s)", v.name, g.r.Range(-2, 3), g.expr(kInt, 1))
		case 3:
			if !g.inFunc && !g.o.D.GlobalReassign {
				g.line("%s.extend(%s)", v.name, g.expr(kListI, 1))
			} else {
				g.line("%s += %s", v.name, g.expr(kListI, 1))
			}
		case 4:
			g.line("%s.append(%s.pop() if %s else 0)", v.name, v.name, v.name)
		default:
			g.line("%s.append(len(%s))", v.name, v.name)
		}
	case kListS:
		if g.r.Bool() {
			g.line("%s.append(%s)", v.name, g.expr(kStr, 1))
		} else {
			g.line("%s.extend(%s)", v.name, g.expr(kListS, 1))
		}
	case kDictSI:
		switch g.r.Intn(5) {
		case 0:
			g.line("%s[%s] = %s", v.name, g.expr(kStr, 1), g.expr(kInt, 1))
		case 1:
			g.line("%s.update(%s)", v.name, g.expr(kDictSI, 1))
		case 2:
			g.line("%s.setdefault(%s, %s)", v.name, g.expr(kStr, 0), g.expr(kInt, 0))
		case 3:
			g.line("%s.pop(%s, None)", v.name, g.expr(kStr, 0))
		default:
			g.line("%s.update(%s=%s)", v.name, g.fresh("kw"), g.expr(kInt, 0))
		}
	case kDictIS:
		if g.r.Bool() {
			g.line("%s[%s] = %s", v.name, g.expr(kInt, 1), g.expr(kStr, 1))
		} else {
			g.line("%s.update([(%s, %s)])", v.name, g.expr(kInt, 0), g.expr(kStr, 0))
		}
	case kSetI:
		switch g.r.Intn(3) {
		case 0:
			g.line("%s.add(%s)", v.name, g.expr(kInt, 1))
		case 1:
			g.line("%s.discard(%s)", v.name, g.expr(kInt, 0))
		default:
			g.line("%s.update(%s)", v.name, g.expr(kListI, 1))
		}
	}
}

func (g *Gen) closure() {
	// nested def capturing a local and (sometimes) rebinding it later
	cap := g.fresh("c")
	fn := g.fresh("h")
	g.line("%s = %s", cap, g.expr(kListI, 1))
	g.addLocal(&gvar{name: cap, k: kListI})
	g.line("def %s(p):", fn)
	g.line("    %s.append(p)", cap)
	g.line("    return len(%s) + p", cap)
	res := g.fresh("v")
	switch g.r.Intn(3) {
	case 0:
		g.line("%s = %s(%s)", res, fn, g.expr(kInt, 1))
	case 1:
		g.line("%s = sorted(%s, key=%s)[0] if %s else 0", res, g.expr(kListI, 1), fn, cap)
	default:
		g.line("%s = [%s(q) for q in range(%d)][-1:] and 1 or 0", res, fn, g.r.Range(0, 3))
	}
	g.addLocal(&gvar{name: res, k: kInt})
}

func (g *Gen) hostStmt() {
	switch g.r.Intn(4) {
	case 0:
		g.line("fault(%q)", g.fresh("t"))
	case 1:
		if v := g.pickMutable(); v != nil && v.k == kListI {
			g.line("attempt(%s.append, %s)", v.name, g.expr(kInt, 0))
		} else {
			g.line("attempt(lambda: %s)", g.expr(kInt, 1))
		}
	case 2:
		g.line("apply(lambda q: probe(q), %s)", g.expr(kInt, 1))
	default:
		g.line("each(%s, lambda q: probe(q))", g.expr(kListI, 1))
	}
}

// structFieldSets: programs differ in the field names of their structs, and
// error sites misspell them, so that "did you mean" hints and attribute
// listings depend on the program — never on another program's structs.
var structFieldSets = [][3]string{
	{"a", "b", "c"}, {"alpha", "beta", "gamma"}, {"timeout", "name", "items"}, {"timeouts_ms", "names", "item"},
	{"ab", "bc", "ca"}, {"alph", "bet", "gam"},
}

func (g *Gen) structFields() [3]string {
	if g.fieldSet == 0 {
		g.fieldSet = 1 + g.r.Intn(len(structFieldSets))
	}
	return structFieldSets[g.fieldSet-1]
}

var nearMissAttrs = []string{"aa", "alpha_", "timeouts", "nam", "itemz", "bc_", "gamm", "be", "appendd", "key", "encod", "valuez"}

func (g *Gen) errorSite() {
	switch g.r.Intn(11) {
	case 8:
		g.line("%s = %s.%s", g.fresh("e"), g.expr(kStruct, 0), g.r.Pick(nearMissAttrs))
		return
	case 9:
		g.line("%s = %s.%s", g.fresh("e"), g.r.Pick([]string{"json", "math", "time"}), g.r.Pick([]string{"encod", "decodee", "sqr", "flor", "noww", "parse_tim"}))
		return
	case 10:
		g.line("%s = hash(%s)", g.fresh("e"), g.expr(kListI, 0))
		return
	}
	switch g.r.Intn(8) {
	case 0:
		g.line("%s = %s[%d]", g.fresh("e"), g.expr(kListI, 0), g.r.Range(50, 60))
	case 1:
		g.line("%s = %s[%q]", g.fresh("e"), g.expr(kDictSI, 0), g.fresh("nokey"))
	case 2:
		g.line("%s = %s // (%s - %s)", g.fresh("e"), g.expr(kInt, 0), "1", "1")
	case 3:
		g.line("%s = int(%q)", g.fresh("e"), "x"+g.fresh("q"))
	case 4:
		g.line("fail(%q, %s)", g.fresh("boom"), g.expr(kInt, 0))
	case 5:
		g.line("%s = %s.nosuchattr", g.fresh("e"), g.expr(kListI, 0))
	case 6:
		g.line("%s = None + %s", g.fresh("e"), g.expr(kInt, 0))
	default:
		g.line("%s, %s = %s", g.fresh("e"), g.fresh("e"), g.expr(kListI, 1))
	}
}

func (g *Gen) comprehension() string {
	src, ek, _ := g.iterSource()
	if ek == kTup {
		return fmt.Sprintf("[p for p, q in %s]", src)
	}
	x := "cx"
	body := "cx"
	cond := ""
	if ek == kInt {
		body = g.r.Pick([]string{"cx * 2", "cx + 1", "-cx", "cx % 3", "abs(cx)"})
		if g.r.Bool() {
			cond = " if cx % 2 == 0"
		}
	} else {
		body = "len(cx)"
		if g.r.Bool() {
			cond = " if cx"
		}
	}
	if g.r.Chance(1, 4) {
		return fmt.Sprintf("[%s + cy for %s in %s for cy in range(2)%s]", body, x, src, cond)
	}
	return fmt.Sprintf("[%s for %s in %s%s]", body, x, src, cond)
}

// ---- expressions ----

var strPool = []string{"a", "b", "key", "zeta", "alpha", "the quick brown fox", "a-long-string-over-12-bytes", "x1", "", "Hello, World", "0123456789ab", "0123456789abc"}

func (g *Gen) strLit() string { return fmt.Sprintf("%q", g.r.Pick(strPool)) }

func (g *Gen) intLit() string {
	switch g.r.Intn(12) {
	case 0:
		return "0"
	case 1:
		return "-1"
	case 2:
		return "4294967296"
	case 3:
		return "1267650600228229401496703205376" // 2^100
	default:
		return fmt.Sprint(g.r.Range(0, 20))
	}
}

func (g *Gen) expr(k kind, depth int) string {
	if depth <= 0 || g.r.Chance(1, 4) {
		if v := g.pickVar(k); v != nil && g.r.Chance(2, 3) {
			return v.name
		}
		return g.literal(k)
	}
	d := depth - 1
	switch k {
	case kInt:
		switch g.r.Intn(16) {
		case 0:
			return fmt.Sprintf("(%s + %s)", g.expr(kInt, d), g.expr(kInt, d))
		case 1:
			return fmt.Sprintf("(%s * %s)", g.expr(kInt, d), g.expr(kInt, 0))
		case 2:
			return fmt.Sprintf("(%s - %s)", g.expr(kInt, d), g.expr(kInt, d))
		case 3:
			return fmt.Sprintf("len(%s)", g.expr(g.randColl(), d))
		case 4:
			return fmt.Sprintf("(%s if %s else %s)", g.expr(kInt, d), g.expr(kBool, d), g.expr(kInt, d))
		case 5:
			return fmt.Sprintf("%s.get(%s, %s)", g.expr(kDictSI, d), g.expr(kStr, 0), g.expr(kInt, 0))
		case 6:
			return fmt.Sprintf("max(%s + [0])", g.expr(kListI, d))
		case 7:
			return fmt.Sprintf("(%s %% %d)", g.expr(kInt, d), g.r.Range(1, 9))
		case 8:
			switch g.r.Intn(4) {
			case 0:
				return fmt.Sprintf("hash(%s)", g.r.Pick([]string{"b\"short\"", "b\"a-bytes-literal-over-12-bytes\"", "b\"0123456789ab\"", "bytes(\"the quick brown fox jumps\")"}))
			case 1:
				return fmt.Sprintf("hash(bytes(%s))", g.expr(kStr, d))
			}
			return fmt.Sprintf("hash(%s)", g.expr(kStr, d))
		case 9:
			if len(g.funcs) > 0 {
				f := g.funcs[g.r.Intn(len(g.funcs))]
				if f.ret == kInt && f != g.curFunc {
					return g.call(f, d)
				}
			}
			return fmt.Sprintf("abs(%s)", g.expr(kInt, d))
		case 10:
			return fmt.Sprintf("(lambda z: z + %s)(%s)", g.expr(kInt, 0), g.expr(kInt, d))
		case 11:
			return fmt.Sprintf("(%s // %d)", g.expr(kInt, d), g.r.Range(1, 7))
		case 12:
			return fmt.Sprintf("int(%s)", g.r.Pick([]string{"3.7", "\"42\"", "True", "-2.5"}))
		case 13:
			return fmt.Sprintf("(%s and %s)", g.expr(kInt, d), g.expr(kInt, d))
		case 14:
			return fmt.Sprintf("%s.find(%s)", g.expr(kStr, d), g.expr(kStr, 0))
		default:
			return fmt.Sprintf("(%s << %d)", g.expr(kInt, 0), g.r.Range(0, 5))
		}
	case kStr:
		switch g.r.Intn(12) {
		case 0:
			return fmt.Sprintf("(%s + %s)", g.expr(kStr, d), g.expr(kStr, d))
		case 1:
			return fmt.Sprintf("str(%s)", g.expr(g.randKind(), d))
		case 2:
			return fmt.Sprintf("repr(%s)", g.expr(g.randKind(), d))
		case 3:
			return fmt.Sprintf("%s.upper()", g.expr(kStr, d))
		case 4:
			return fmt.Sprintf("\"%%s=%%d\" %% (%s, %s)", g.expr(kStr, d), g.expr(kInt, d))
		case 5:
			return fmt.Sprintf("\",\".join(%s)", g.expr(kListS, d))
		case 6:
			return fmt.Sprintf("\"{}:{}\".format(%s, %s)", g.expr(kInt, d), g.expr(kStr, d))
		case 7:
			if g.o.JSON {
				return fmt.Sprintf("json.encode(%s)", g.expr(kind(g.r.Range(int(kInt), int(kDictSI))), d))
			}
			return fmt.Sprintf("%s.strip()", g.expr(kStr, d))
		case 8:
			return fmt.Sprintf("type(%s)", g.expr(g.randKind(), d))
		case 9:
			return fmt.Sprintf("%s[%d:%d]", g.expr(kStr, d), g.r.Range(-3, 3), g.r.Range(-3, 6))
		case 10:
			if g.r.Chance(1, 3) {
				return fmt.Sprintf("str(bytes(%s)) + repr(b\"a-bytes-literal-over-12-bytes\"[%d:])", g.expr(kStr, d), g.r.Range(0, 5))
			}
			return fmt.Sprintf("str(dir(%s))", g.expr(g.randKind(), 0))
		default:
			return fmt.Sprintf("%s.replace(%s, %s)", g.expr(kStr, d), g.strLit(), g.strLit())
		}
	case kBool:
		switch g.r.Intn(8) {
		case 0:
			return fmt.Sprintf("(%s < %s)", g.expr(kInt, d), g.expr(kInt, d))
		case 1:
			return fmt.Sprintf("(%s == %s)", g.expr(kInt, d), g.expr(kInt, d))
		case 2:
			return fmt.Sprintf("(%s in %s)", g.expr(kInt, d), g.expr(kListI, d))
		case 3:
			return fmt.Sprintf("(%s in %s)", g.expr(kStr, d), g.expr(kDictSI, d))
		case 4:
			return fmt.Sprintf("(not %s)", g.expr(kBool, d))
		case 5:
			return fmt.Sprintf("(%s or %s)", g.expr(kBool, d), g.expr(kBool, d))
		case 6:
			return fmt.Sprintf("any([%s, %s])", g.expr(kBool, d), g.expr(kBool, 0))
		default:
			return fmt.Sprintf("bool(%s)", g.expr(kListI, d))
		}
	case kListI:
		switch g.r.Intn(10) {
		case 0:
			return fmt.Sprintf("[%s, %s]", g.expr(kInt, d), g.expr(kInt, d))
		case 1:
			return fmt.Sprintf("sorted(%s)", g.expr(kListI, d))
		case 2:
			return fmt.Sprintf("list(range(%d))", g.r.Range(0, 6))
		case 3:
			return fmt.Sprintf("(%s + %s)", g.expr(kListI, d), g.expr(kListI, d))
		case 4:
			return fmt.Sprintf("list(reversed(%s))", g.expr(kListI, d))
		case 5:
			return fmt.Sprintf("[ci * 2 for ci in %s]", g.expr(kListI, d))
		case 6:
			return fmt.Sprintf("%s[%d:]", g.expr(kListI, d), g.r.Range(0, 2))
		case 7:
			return fmt.Sprintf("list(%s.values())", g.expr(kDictSI, d))
		case 8:
			return fmt.Sprintf("sorted(%s, key=lambda z: -z, reverse=%s)", g.expr(kListI, d), g.r.Pick([]string{"True", "False"}))
		default:
			return fmt.Sprintf("list(%s)", g.expr(kSetI, d))
		}
	case kListS:
		switch g.r.Intn(6) {
		case 0:
			return fmt.Sprintf("[%s, %s]", g.expr(kStr, d), g.expr(kStr, d))
		case 1:
			return fmt.Sprintf("%s.split(%s)", g.expr(kStr, d), g.r.Pick([]string{"\" \"", "\"-\"", "\"a\""}))
		case 2:
			return fmt.Sprintf("sorted(%s)", g.expr(kListS, d))
		case 3:
			return fmt.Sprintf("list(%s.keys())", g.expr(kDictSI, d))
		case 4:
			return fmt.Sprintf("[str(cs) for cs in %s]", g.expr(kListI, d))
		default:
			return fmt.Sprintf("list(%s.values())", g.expr(kDictIS, d))
		}
	case kDictSI:
		switch g.r.Intn(6) {
		case 0:
			return fmt.Sprintf("{%s: %s, %s: %s}", g.strLit(), g.expr(kInt, d), g.expr(kStr, d), g.expr(kInt, d))
		case 1:
			return fmt.Sprintf("dict(%s=%s)", g.fresh("n"), g.expr(kInt, d))
		case 2:
			return fmt.Sprintf("{ck: len(ck) for ck in %s}", g.expr(kListS, d))
		case 3:
			return fmt.Sprintf("(%s | %s)", g.expr(kDictSI, d), g.expr(kDictSI, d))
		case 4:
			return fmt.Sprintf("dict(zip(%s, %s))", g.expr(kListS, d), g.expr(kListI, d))
		default:
			return fmt.Sprintf("dict(%s)", g.expr(kDictSI, d))
		}
	case kDictIS:
		switch g.r.Intn(3) {
		case 0:
			return fmt.Sprintf("{%s: %s, %s: %s}", g.expr(kInt, d), g.expr(kStr, d), g.intLit(), g.strLit())
		case 1:
			return fmt.Sprintf("{ck: str(ck) for ck in %s}", g.expr(kListI, d))
		default:
			return fmt.Sprintf("dict(enumerate(%s))", g.expr(kListS, d))
		}
	case kSetI:
		if !g.o.D.Set {
			return g.literal(kSetI)
		}
		switch g.r.Intn(5) {
		case 0:
			return fmt.Sprintf("set(%s)", g.expr(kListI, d))
		case 1:
			return fmt.Sprintf("(%s | %s)", g.expr(kSetI, d), g.expr(kSetI, d))
		case 2:
			return fmt.Sprintf("(%s & %s)", g.expr(kSetI, d), g.expr(kSetI, d))
		case 3:
			return fmt.Sprintf("(%s - %s)", g.expr(kSetI, d), g.expr(kSetI, d))
		default:
			return fmt.Sprintf("%s.union(%s)", g.expr(kSetI, d), g.expr(kListI, d))
		}
	case kTup:
		if g.r.Bool() {
			return fmt.Sprintf("(%s, %s)", g.expr(kInt, d), g.expr(kStr, d))
		}
		return fmt.Sprintf("tuple([%s, %s])", g.expr(kInt, d), g.expr(kStr, d))
	case kStruct:
		f := g.structFields()
		return fmt.Sprintf("struct(%s=%s, %s=%s, %s=%s)", f[0], g.expr(kInt, d), f[1], g.expr(kStr, d), f[2], g.expr(kListI, d))
	}
	return "None"
}

func (g *Gen) literal(k kind) string {
	switch k {
	case kInt:
		return g.intLit()
	case kStr:
		return g.strLit()
	case kBool:
		return g.r.Pick([]string{"True", "False"})
	case kListI:
		n := g.r.Intn(4)
		var xs []string
		for i := 0; i < n; i++ {
			xs = append(xs, g.intLit())
		}
		return "[" + strings.Join(xs, ", ") + "]"
	case kListS:
		n := g.r.Intn(4)
		var xs []string
		for i := 0; i < n; i++ {
			xs = append(xs, g.strLit())
		}
		return "[" + strings.Join(xs, ", ") + "]"
	case kDictSI:
		n := g.r.Intn(4)
		var xs []string
		seen := map[string]bool{}
		for i := 0; i < n; i++ {
			s := g.strLit()
			if seen[s] {
				continue
			}
			seen[s] = true
			xs = append(xs, s+": "+g.intLit())
		}
		return "{" + strings.Join(xs, ", ") + "}"
	case kDictIS:
		n := g.r.Intn(3)
		var xs []string
		for i := 0; i < n; i++ {
			xs = append(xs, fmt.Sprintf("%d: %s", i*7+g.r.Intn(5), g.strLit()))
		}
		return "{" + strings.Join(xs, ", ") + "}"
	case kSetI:
		if !g.o.D.Set {
			// sets disabled: an int-keyed dict iterates like a set of ints
			return "{1: None, 2: None}"
		}
		return fmt.Sprintf("set([%s, %s])", g.intLit(), g.intLit())
	case kTup:
		return fmt.Sprintf("(%s, %s)", g.intLit(), g.strLit())
	case kStruct:
		f := g.structFields()
		return fmt.Sprintf("struct(%s=%s, %s=%s, %s=[])", f[0], g.intLit(), f[1], g.strLit(), f[2])
	}
	return "None"
}

// RandomDialect draws dialect options.
func RandomDialect(r *Rng) Dialect {
	return Dialect{Set: r.Chance(3, 4), While: r.Chance(2, 3), TopLevelControl: r.Chance(2, 3), GlobalReassign: r.Chance(1, 3), Recursion: r.Chance(1, 2)}
}
