// mutgen: AST-level mutant generator used to measure the sensitivity of the checks (bin/mutsweep).
// It never touches /repo: it reads a source file from a checkout and writes the mutated file to a
// scratch worktree.
//
//	mutgen list   <repo-root>                  -> one JSON line per mutant (id, file, func, op, line, desc)
//	mutgen apply  <repo-root> <id> <dest-root> -> writes the mutated file under <dest-root>
package main

import (
	"bytes"
	"encoding/json"
	"fmt"
	"go/ast"
	"go/format"
	"go/parser"
	"go/token"
	"os"
	"path/filepath"
	"regexp"
	"strconv"
	"strings"
)

// target files and, per file, a regexp over "Recv.Func" / "Func" names ("" = every function).
var targets = []struct{ file, funcs string }{
	{"starlark/hashtable.go", ""},
	{"starlark/iter.go", ""},
	{"starlark/value.go", `^(List|Dict|Set|listIterator|tupleIterator|keyIterator|Tuple|Function|Builtin|rangeIterator|stringElemsIterator|bytesIterator)\.|^(toString|writeValue)$`},
	{"starlark/interp.go", ""},
	{"starlark/eval.go", `^(Thread\.(Cancel|Uncancel|SetMaxExecutionSteps|ExecutionSteps|CallStackDepth|evalError|SetLocal|Local)|Call|ExecFile|ExecFileOptions|Program\.Init|makeToplevelFunction|listExtend|StringDict\.(Freeze|Keys|Has|String)|ExecREPLChunk|setIndex|SourceProgramOptions|CompiledProgram|Binary)$`},
	{"starlark/library.go", `^(list_\w+|dict_\w+|set_\w+|all|any|enumerate|list|tuple|set|dict|zip|sorted|reversed|minmax|updateDict|setUpdate|builtinAttrNames|builtinAttr|dir|hash|len_|bool_|bytes_|str|string_join|string_elems|string_iterable_\w+|getattr|rangeValue\.\w+|rangeIterator\.\w+|sortSlice\.\w+|print|repr|fail)$`},
	{"starlarkstruct/struct.go", ""},
	{"starlarkstruct/module.go", ""},
	{"internal/compile/compile.go", `^(Funcode\.Position|Funcode\.decodeLNT|fcomp\.stmt|fcomp\.comprehension|fcomp\.assign|fcomp\.assignSequence|fcomp\.args|fcomp\.call)$`},
	{"lib/proto/proto.go", ""},
	{"lib/proto/iter.go", ""},
	{"lib/json/json.go", `^(encode)$`},
}

type Mutant struct {
	ID   int    `json:"id"`
	File string `json:"file"`
	Func string `json:"func"`
	Op   string `json:"op"`
	Line int    `json:"line"`
	Desc string `json:"desc"`
}

type site struct {
	fn    string
	op    string
	pos   token.Pos
	desc  string
	apply func()
}

func funcName(fd *ast.FuncDecl) string {
	if fd.Recv != nil && len(fd.Recv.List) > 0 {
		t := fd.Recv.List[0].Type
		if s, ok := t.(*ast.StarExpr); ok {
			t = s.X
		}
		if ix, ok := t.(*ast.IndexExpr); ok {
			t = ix.X
		}
		if id, ok := t.(*ast.Ident); ok {
			return id.Name + "." + fd.Name.Name
		}
	}
	return fd.Name.Name
}

var swaps = map[token.Token]token.Token{
	token.LSS: token.LEQ, token.LEQ: token.LSS, token.GTR: token.GEQ, token.GEQ: token.GTR,
	token.EQL: token.NEQ, token.NEQ: token.EQL, token.LAND: token.LOR, token.LOR: token.LAND,
	token.ADD: token.SUB, token.SUB: token.ADD,
}

func render(fset *token.FileSet, n ast.Node) string {
	var b bytes.Buffer
	format.Node(&b, fset, n)
	s := strings.Join(strings.Fields(b.String()), " ")
	if len(s) > 90 {
		s = s[:90] + "…"
	}
	return s
}

func sites(fset *token.FileSet, f *ast.File, funcs string) []site {
	re := regexp.MustCompile(funcs)
	var out []site
	for _, d := range f.Decls {
		fd, ok := d.(*ast.FuncDecl)
		if !ok || fd.Body == nil {
			continue
		}
		name := funcName(fd)
		if funcs != "" && !re.MatchString(name) {
			continue
		}
		// statement lists
		var visitList func(list []ast.Stmt)
		visitStmt := func(holder *ast.Stmt) {}
		_ = visitStmt
		ast.Inspect(fd.Body, func(n ast.Node) bool {
			var list *[]ast.Stmt
			switch x := n.(type) {
			case *ast.BlockStmt:
				list = &x.List
			case *ast.CaseClause:
				list = &x.Body
			case *ast.CommClause:
				list = &x.Body
			}
			if list != nil {
				l := *list
				for i := range l {
					i := i
					st := l[i]
					switch s := st.(type) {
					case *ast.ExprStmt, *ast.DeferStmt, *ast.IncDecStmt:
						if call, ok := st.(*ast.ExprStmt); ok {
							if c, ok := call.X.(*ast.CallExpr); ok {
								if id, ok := c.Fun.(*ast.Ident); ok && id.Name == "panic" {
									continue
								}
							}
						}
						out = append(out, site{name, "del-stmt", st.Pos(), "delete: " + render(fset, st), func() { l[i] = &ast.EmptyStmt{Semicolon: st.Pos()} }})
					case *ast.AssignStmt:
						if s.Tok != token.DEFINE {
							out = append(out, site{name, "del-assign", st.Pos(), "delete: " + render(fset, st), func() { l[i] = &ast.EmptyStmt{Semicolon: st.Pos()} }})
						}
					case *ast.IfStmt:
						if s.Init == nil {
							// remove the whole if (keep else branch if any)
							out = append(out, site{name, "del-if", st.Pos(), "drop if: " + render(fset, s.Cond), func() {
								if s.Else != nil {
									l[i] = s.Else
								} else {
									l[i] = &ast.EmptyStmt{Semicolon: st.Pos()}
								}
							}})
						}
						out = append(out, site{name, "neg-if", st.Pos(), "negate if: " + render(fset, s.Cond), func() {
							s.Cond = &ast.UnaryExpr{Op: token.NOT, X: &ast.ParenExpr{X: s.Cond}}
						}})
					}
				}
			}
			if be, ok := n.(*ast.BinaryExpr); ok {
				if to, ok := swaps[be.Op]; ok {
					// skip string concatenation-like '+' on literals
					if be.Op == token.ADD {
						if _, isLit := be.Y.(*ast.BasicLit); isLit {
							if be.Y.(*ast.BasicLit).Kind == token.STRING {
								return true
							}
						}
						if _, isLit := be.X.(*ast.BasicLit); isLit {
							if be.X.(*ast.BasicLit).Kind == token.STRING {
								return true
							}
						}
					}
					from := be.Op
					out = append(out, site{name, "swap-op", be.OpPos, fmt.Sprintf("%s -> %s in: %s", from, to, render(fset, be)), func() { be.Op = to }})
				}
			}
			return true
		})
		_ = visitList
	}
	return out
}

func load(root, file string) (*token.FileSet, *ast.File) {
	fset := token.NewFileSet()
	f, err := parser.ParseFile(fset, filepath.Join(root, file), nil, parser.ParseComments)
	if err != nil {
		fmt.Fprintln(os.Stderr, err)
		os.Exit(2)
	}
	return fset, f
}

func main() {
	if len(os.Args) < 3 {
		fmt.Fprintln(os.Stderr, "usage: mutgen list <repo> | apply <repo> <id> <dest>")
		os.Exit(2)
	}
	root := os.Args[2]
	id := 0
	want := -1
	if os.Args[1] == "apply" {
		want, _ = strconv.Atoi(os.Args[3])
	}
	enc := json.NewEncoder(os.Stdout)
	for _, t := range targets {
		fset, f := load(root, t.file)
		ss := sites(fset, f, t.funcs)
		for _, s := range ss {
			if os.Args[1] == "list" {
				enc.Encode(Mutant{id, t.file, s.fn, s.op, fset.Position(s.pos).Line, s.desc})
			} else if id == want {
				s.apply()
				var b bytes.Buffer
				if err := format.Node(&b, fset, f); err != nil {
					fmt.Fprintln(os.Stderr, err)
					os.Exit(2)
				}
				if err := os.WriteFile(filepath.Join(os.Args[4], t.file), b.Bytes(), 0o644); err != nil {
					fmt.Fprintln(os.Stderr, err)
					os.Exit(2)
				}
				enc.Encode(Mutant{id, t.file, s.fn, s.op, fset.Position(s.pos).Line, s.desc})
				return
			}
			id++
		}
	}
	if os.Args[1] == "apply" {
		fmt.Fprintln(os.Stderr, "no such mutant")
		os.Exit(2)
	}
}
