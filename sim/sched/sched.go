// Package sched is the deterministic task scheduler of starsim.
//
// Every simulated task is a real goroutine, but exactly one of them holds
// the "turn" at any time. The turn is handed over through raw assembly
// loads/stores from //go:norace functions, so that
//
//   - which task runs next is decided only by the scenario (explicit
//     schedule or a PRNG stream derived from the scenario seed), and
//   - the Go race detector sees NO synchronisation between tasks: a
//     serialised, replayable execution still reports every pair of
//     conflicting accesses made by two different tasks.
//
// All scheduler state is touched only inside //go:norace code.
// No maps, no channels, no mutexes, no sync/atomic in here.
package sched

import (
	"runtime"
	"sync"
)

func rawLoad(p *uint64) uint64
func rawStore(p *uint64, v uint64)

// Task states.
const (
	stRunnable = iota
	stBlocked
	stSleeping
	stDone
)

// A Run is one element of an explicit (recorded or minimised) schedule:
// task Task is chosen at N consecutive scheduling decisions.
type Run struct {
	Task int `json:"t"`
	N    int `json:"n"`
}

// Config selects how scheduling decisions are made.
type Config struct {
	Strategy  string `json:"strategy"`           // "explicit", "random", "rr", "pct", "seq"
	Seed      uint64 `json:"seed,omitempty"`     // PRNG stream for random/pct
	Permille  int    `json:"permille,omitempty"` // random: probability (‰) of switching at a point
	Quantum   int    `json:"quantum,omitempty"`  // rr: points per quantum
	Depth     int    `json:"depth,omitempty"`    // pct: number of priority change points
	Horizon   int    `json:"horizon,omitempty"`  // pct: estimated number of points
	Explicit  []Run  `json:"explicit,omitempty"` // explicit: RLE list of decisions
	MaxPoints uint64 `json:"max_points,omitempty"`
}

// An Event is one entry of the (optional) event log.
type Event struct {
	Seq  uint64
	Time int64
	Task int
	Kind uint8
	A, B uint64
	S    string
}

// A Waitable is something a task can block on.
type Waitable struct {
	signalled bool
}

type Task struct {
	ID       int
	Name     string
	s        *Sched
	state    int
	wake     int64
	wait     *Waitable
	aborted  bool
	fn       func(*Task)
	lastKind uint8
	prio     int
	// User is free for the harness (touched only by the owning goroutine or
	// after the final join).
	User any
}

type Sched struct {
	cfg   Config
	turn  uint64 // task ID + 1 of the goroutine allowed to run; 0 = nobody
	tasks []*Task
	cur   *Task
	wg    sync.WaitGroup

	now             int64
	seq             uint64
	points          uint64
	switches        uint64
	fp              uint64
	swSig           uint64
	rng             uint64
	quantumLeft     int
	expIdx, expLeft int
	pctChange       []uint64

	rec []Run

	KeepLog bool
	log     []Event

	deadlock bool
	overrun  bool

	lastTask int
	lastKind uint8

	// Pairs is a 256x256 bitmap of adjacent event-kind pairs produced by two
	// different tasks (a measure of interleaving coverage).
	Pairs [1024]uint64
}

//go:norace
func New(cfg Config) *Sched {
	s := &Sched{cfg: cfg, rng: cfg.Seed*0x9E3779B97F4A7C15 + 0x1234567, fp: 0xcbf29ce484222325, lastTask: -1}
	if s.cfg.MaxPoints == 0 {
		s.cfg.MaxPoints = 50_000_000
	}
	if s.cfg.Strategy == "pct" {
		h := cfg.Horizon
		if h <= 0 {
			h = 1000
		}
		for i := 0; i < cfg.Depth; i++ {
			s.pctChange = append(s.pctChange, s.rand()%uint64(h))
		}
	}
	return s
}

//go:norace
func (s *Sched) rand() uint64 {
	s.rng += 0x9E3779B97F4A7C15
	z := s.rng
	z = (z ^ (z >> 30)) * 0xBF58476D1CE4E5B9
	z = (z ^ (z >> 27)) * 0x94D049BB133111EB
	return z ^ (z >> 31)
}

// Spawn creates a task. It may be called before Run or from a running task.
// The goroutine is created here (so the creator's earlier writes are
// published to it in the usual Go way) and parks until first chosen.
//
//go:norace
func (s *Sched) Spawn(name string, fn func(*Task)) *Task {
	t := &Task{ID: len(s.tasks), Name: name, s: s, fn: fn}
	if s.cfg.Strategy == "pct" {
		t.prio = int(s.rand()%1000) + 1000
	}
	s.tasks = appendTask(s.tasks, t)
	s.wg.Add(1)
	s.emit(-1, EvSpawn, uint64(t.ID), 0, name)
	go t.main()
	return t
}

//go:norace
func appendTask(ts []*Task, t *Task) []*Task {
	n := make([]*Task, len(ts)+1)
	for i := range ts {
		n[i] = ts[i]
	}
	n[len(ts)] = t
	return n
}

func (t *Task) main() {
	defer t.s.wg.Done()
	t.waitTurn()
	t.fn(t)
	t.finish()
}

//go:norace
func (t *Task) waitTurn() {
	want := uint64(t.ID) + 1
	for rawLoad(&t.s.turn) != want {
		runtime.Gosched()
	}
	t.s.cur = t
}

//go:norace
func (t *Task) finish() {
	s := t.s
	t.state = stDone
	s.emit(t.ID, EvDone, 0, 0, "")
	next := s.pick(t)
	if next == nil {
		rawStore(&s.turn, 0)
		return
	}
	s.handover(t, next)
}

// Run starts the simulation with the tasks spawned so far and returns when
// every task (including tasks spawned later) has finished.
func (s *Sched) Run() {
	s.start()
	s.wg.Wait()
}

//go:norace
func (s *Sched) start() {
	next := s.pick(nil)
	if next == nil {
		return
	}
	rawStore(&s.turn, uint64(next.ID)+1)
}

//go:norace
func (s *Sched) handover(from, to *Task) {
	s.switches++
	var fk uint8
	if from != nil {
		fk = from.lastKind
	}
	s.swSig = (s.swSig ^ uint64(fk) ^ uint64(to.ID)<<8) * 0x100000001b3
	rawStore(&s.turn, uint64(to.ID)+1)
}

// Yield is a scheduling point: the scenario decides who runs next.
//
//go:norace
func (t *Task) Yield() {
	s := t.s
	s.points++
	if s.points > s.cfg.MaxPoints {
		s.overrun = true
	}
	next := s.pick(t)
	if next != t && next != nil {
		s.handover(t, next)
		t.waitTurn()
	}
}

// Block parks the task until w is signalled. It returns false if the
// simulation deadlocked (every task blocked) and the wait was aborted.
//
//go:norace
func (t *Task) Block(w *Waitable) bool {
	s := t.s
	if w.signalled {
		return true
	}
	t.state = stBlocked
	t.wait = w
	t.aborted = false
	s.emit(t.ID, EvBlock, 0, 0, "")
	next := s.pick(t)
	if next != t {
		s.handover(t, next)
		t.waitTurn()
	}
	return !t.aborted
}

// Signal makes every task blocked on w runnable (w stays signalled).
//
//go:norace
func (s *Sched) Signal(w *Waitable) {
	w.signalled = true
	for _, t := range s.tasks {
		if t.state == stBlocked && t.wait == w {
			t.state = stRunnable
			t.wait = nil
		}
	}
}

// Sleep parks the task for d ticks of simulated time.
//
//go:norace
func (t *Task) Sleep(d int64) {
	s := t.s
	if d <= 0 {
		t.Yield()
		return
	}
	t.state = stSleeping
	t.wake = s.now + d
	s.emit(t.ID, EvSleep, uint64(d), 0, "")
	next := s.pick(t)
	if next != t {
		s.handover(t, next)
		t.waitTurn()
	}
}

// pick chooses the next task to run. cur may be nil (start) or in any state.
// It consumes exactly one scheduling decision when more than one task is
// runnable, and records the decision.
//
//go:norace
func (s *Sched) pick(cur *Task) *Task {
	for {
		n := 0
		var only *Task
		for _, t := range s.tasks {
			if t.state == stRunnable {
				n++
				if only == nil {
					only = t
				}
			}
		}
		if n == 0 {
			// Advance the clock to the earliest sleeper.
			var w *Task
			for _, t := range s.tasks {
				if t.state == stSleeping && (w == nil || t.wake < w.wake) {
					w = t
				}
			}
			if w != nil {
				if w.wake > s.now {
					s.now = w.wake
				}
				for _, t := range s.tasks {
					if t.state == stSleeping && t.wake <= s.now {
						t.state = stRunnable
					}
				}
				continue
			}
			// Deadlock or all done.
			blocked := false
			for _, t := range s.tasks {
				if t.state == stBlocked {
					blocked = true
					t.state = stRunnable
					t.aborted = true
					t.wait = nil
				}
			}
			if blocked {
				s.deadlock = true
				s.emit(-1, EvDeadlock, 0, 0, "")
				continue
			}
			return nil
		}
		var choice *Task
		if n == 1 {
			choice = only
		} else {
			choice = s.decide(cur, n)
			s.record(choice.ID)
		}
		return choice
	}
}

//go:norace
func (s *Sched) nthRunnable(k int) *Task {
	for _, t := range s.tasks {
		if t.state == stRunnable {
			if k == 0 {
				return t
			}
			k--
		}
	}
	return nil
}

//go:norace
func (s *Sched) decide(cur *Task, n int) *Task {
	curOK := cur != nil && cur.state == stRunnable
	switch s.cfg.Strategy {
	case "explicit":
		for s.expLeft == 0 && s.expIdx < len(s.cfg.Explicit) {
			s.expLeft = s.cfg.Explicit[s.expIdx].N
			if s.expLeft > 0 {
				break
			}
			s.expIdx++
		}
		if s.expIdx < len(s.cfg.Explicit) {
			id := s.cfg.Explicit[s.expIdx].Task
			s.expLeft--
			if s.expLeft == 0 {
				s.expIdx++
			}
			if id >= 0 && id < len(s.tasks) && s.tasks[id].state == stRunnable {
				return s.tasks[id]
			}
		}
		if curOK {
			return cur
		}
		return s.nthRunnable(0)
	case "random":
		if curOK && int(s.rand()%1000) >= s.cfg.Permille {
			return cur
		}
		return s.nthRunnable(int(s.rand() % uint64(n)))
	case "rr":
		if curOK && s.quantumLeft > 0 {
			s.quantumLeft--
			return cur
		}
		q := s.cfg.Quantum
		if q <= 0 {
			q = 1
		}
		s.quantumLeft = int(s.rand()%uint64(q)) + 1
		// next runnable after cur in ID order
		start := 0
		if cur != nil {
			start = cur.ID + 1
		}
		for i := 0; i < len(s.tasks); i++ {
			t := s.tasks[(start+i)%len(s.tasks)]
			if t.state == stRunnable {
				return t
			}
		}
		return s.nthRunnable(0)
	case "pct":
		for _, cp := range s.pctChange {
			if cp == s.points && curOK {
				cur.prio = int(s.rand() % 1000) // drop below all initial priorities
			}
		}
		var best *Task
		for _, t := range s.tasks {
			if t.state == stRunnable && (best == nil || t.prio > best.prio) {
				best = t
			}
		}
		return best
	default: // "seq": run each task to completion in ID order
		if curOK {
			return cur
		}
		return s.nthRunnable(0)
	}
}

//go:norace
func (s *Sched) record(id int) {
	if n := len(s.rec); n > 0 && s.rec[n-1].Task == id {
		s.rec[n-1].N++
		return
	}
	if len(s.rec) == cap(s.rec) {
		nr := make([]Run, len(s.rec), 2*cap(s.rec)+16)
		for i := range s.rec {
			nr[i] = s.rec[i]
		}
		s.rec = nr
	}
	s.rec = s.rec[:len(s.rec)+1]
	s.rec[len(s.rec)-1] = Run{Task: id, N: 1}
}

// Event kinds used by the scheduler itself; the harness defines more (>= 16).
const (
	EvSpawn uint8 = iota + 1
	EvDone
	EvBlock
	EvSleep
	EvDeadlock
)

// Emit appends an event to the fingerprint (and to the log when KeepLog).
// It never draws from the PRNG and never reads a real clock.
//
//go:norace
func (t *Task) Emit(kind uint8, a, b uint64, str string) uint64 {
	return t.s.emit(t.ID, kind, a, b, str)
}

//go:norace
func (s *Sched) emit(task int, kind uint8, a, b uint64, str string) uint64 {
	s.seq++
	h := s.fp
	h = (h ^ s.seq) * 0x100000001b3
	h = (h ^ uint64(task+1)) * 0x100000001b3
	h = (h ^ uint64(kind)) * 0x100000001b3
	h = (h ^ a) * 0x100000001b3
	h = (h ^ b) * 0x100000001b3
	for i := 0; i < len(str); i++ {
		h = (h ^ uint64(str[i])) * 0x100000001b3
	}
	s.fp = h
	if task >= 0 && task < len(s.tasks) {
		// adjacent cross-task pair coverage
		if s.lastTask >= 0 && s.lastTask != task {
			idx := uint(s.lastKind)<<8 | uint(kind)
			s.Pairs[idx>>6] |= 1 << (idx & 63)
		}
		s.lastTask = task
		s.lastKind = kind
		s.tasks[task].lastKind = kind
	}
	if s.KeepLog {
		if len(s.log) == cap(s.log) {
			nl := make([]Event, len(s.log), 2*cap(s.log)+64)
			for i := range s.log {
				nl[i] = s.log[i]
			}
			s.log = nl
		}
		s.log = s.log[:len(s.log)+1]
		s.log[len(s.log)-1] = Event{Seq: s.seq, Time: s.now, Task: task, Kind: kind, A: a, B: b, S: str}
	}
	return s.seq
}

// Accessors (all norace: they may be called by any task holding the turn).

//go:norace
func (s *Sched) Now() int64 { return s.now }

//go:norace
func (s *Sched) Tick(d int64) { s.now += d }

//go:norace
func (s *Sched) SetNow(t int64) { s.now = t }

//go:norace
func (s *Sched) Seq() uint64 { return s.seq }

//go:norace
func (s *Sched) Points() uint64 { return s.points }

//go:norace
func (s *Sched) Switches() uint64 { return s.switches }

//go:norace
func (s *Sched) Fingerprint() uint64 { return s.fp }

//go:norace
func (s *Sched) SwitchSig() uint64 { return s.swSig }

//go:norace
func (s *Sched) Deadlocked() bool { return s.deadlock }

//go:norace
func (s *Sched) Overrun() bool { return s.overrun }

//go:norace
func (s *Sched) Recorded() []Run {
	r := make([]Run, len(s.rec))
	for i := range s.rec {
		r[i] = s.rec[i]
	}
	return r
}

//go:norace
func (s *Sched) Log() []Event { return s.log }

//go:norace
func (s *Sched) NumTasks() int { return len(s.tasks) }

//go:norace
func (t *Task) Sched() *Sched { return t.s }
