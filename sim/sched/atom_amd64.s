#include "textflag.h"

// Raw (uninstrumented) load/store used to hand the "turn" between simulated
// tasks. The Go race detector does not see assembly, so passing the turn here
// creates no happens-before edge between tasks.

// func rawLoad(p *uint64) uint64
TEXT ·rawLoad(SB),NOSPLIT,$0-16
	MOVQ p+0(FP), AX
	MOVQ (AX), AX
	MOVQ AX, ret+8(FP)
	RET

// func rawStore(p *uint64, v uint64)
TEXT ·rawStore(SB),NOSPLIT,$0-16
	MOVQ p+0(FP), AX
	MOVQ v+8(FP), BX
	XCHGQ BX, (AX)
	RET
